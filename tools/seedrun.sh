#!/bin/bash
# usage: seedrun.sh <worktree> <outdir> <name> <pkgdir> <checks...>
# confirms the seed in its scratch worktree, then runs the checks against that worktree
# with the patch applied (VERIF_REPO_ROOT), stores everything under /verif/seeded/<name>/
export GOFLAGS=-mod=mod GOWORK=off GOPROXY=off GOSUMDB=off GOTOOLCHAIN=local
WT=$1; OUT=$2; NAME=$3; PKG=$4; shift 4
DEST=/verif/seeded/$NAME; mkdir -p $DEST
cp $OUT/patch.diff $OUT/demo_test.go $DEST/ 2>/dev/null; cp $OUT/NOTES.md $OUT/RUN.txt $DEST/ 2>/dev/null
/verif/tools/seedconfirm.sh $WT $OUT $PKG > $DEST/confirm.log 2>&1
CONF=$(tail -1 $DEST/confirm.log)
git -C $WT checkout -q -- . ; git -C $WT apply $OUT/patch.diff
RES=""
for c in "$@"; do
  (cd /verif && VERIF_REPO_ROOT=$WT VERIF_ALT_OUT=/tmp/verif-alt/$NAME timeout 2400 ./check $c > $DEST/check_$c.log 2>&1); rc=$?
  v=$(grep -c '^VIOLATION' $DEST/check_$c.log)
  RES="$RES $c:exit=$rc:violations=$v"
done
git -C $WT checkout -q -- .
echo "$NAME $CONF CHECKS:$RES" | tee $DEST/result.txt
