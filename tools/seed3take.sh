#!/bin/bash
# usage: seed3take.sh <PROP> <k> [pkgdir]   takes /tmp/seed3/<PROP>/_out/<k> -> /verif/seeded/<PROP>-<next>, confirms it independently
P=$1; K=$2; PKG=${3:-hermes}
SRC=${SEEDBASE:-/tmp/seed3}/$P/_out/$K
n=1; while [ -d /verif/seeded/$P-$n ]; do n=$((n+1)); done
D=/verif/seeded/$P-$n
mkdir -p $D; cp $SRC/patch.diff $SRC/demo_test.go $SRC/NOTES.md $D/ 2>/dev/null
/verif/tools/seedconfirm.sh ${SEEDBASE:-/tmp/seed3}/$P $D $PKG > $D/confirm.log 2>&1
tail -2 $D/confirm.log
echo "stored as $D"
