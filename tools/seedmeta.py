#!/usr/bin/env python3
"""Writes /verif/seeded/<id>/meta.json from the evaluation logs and prints the detection table."""
import json, os, re, glob
ROOT='/verif/seeded'
NEEDS={
 'C01-1':"capillary rise in the flux array not scaled by the sub-step length: needs shallow groundwater and a day split into sub-steps",
 'C01-2':"sub-step count rounded before the extreme-rain refinement: needs a rain day whose refinement yields a fractional count",
 'C02-1':"drain-layer convection uses the wrong upstream concentration: needs a drain, capillary rise entering the drain layer from below and no upward flow at its top",
 'C02-2':"stale mineralisation source term below the top layer under frost: needs a warm-to-frozen transition below 10 cm",
 'C04-1':"WetterK keeps the year length of a leap year (reader): needs the yearly-file layout across a leap year",
 'C04-2':"gap fill on 1 January uses the wrong previous day: needs adjacent years of different length and a sentinel on 1 January",
 'C05-1':"crop record flag reset by later sub-steps: needs a harvest on a day with more than one sub-step",
 'C05-2':"leap-day decoding off by one in KalenderDate: needs a 29 February in the output period",
 'C06-1':"uptake guard compared per sub-step: needs a sub-stepped day and a nearly exhausted rooted layer",
 'C06-2':"overflow cascade stops one layer short: needs groundwater inside the profile or a falling table",
 'C07-1':"tillage mixing divides by the unrounded depth: needs a tillage depth that is not a multiple of 10 cm",
 'C07-2':"fixation scaled by the sub-step length but credited once: needs a legume on a sub-stepped day",
 'C08-1':"redistribution weight uses the wrong layer index: needs two rooted layers with a stressed upper layer",
 'C08-2':"same change as C06-1 seen from the uptake clause",
 'C10-1':"shift loop skips the comparison with the start-day slot: needs a fertiliser dated exactly on the start day",
 'C10-2':"ammonium share discounted twice for the gaseous loss: needs a fertiliser type with Loss > 0 and NH4 > 0",
 'C12-1':"inverse leap correction starts one day late: only the 49 leap days",
 'C12-2':"spurious century rule in the forward conversion: only March-December 2000",
 'C16-1':"irrigation stage window off by one: needs a crop in stage Irrdv2+1 during a dry spell",
 'C16-2':"automatic N application loses its clamp at one of six sites: needs the day-of-year variant with much mineral N",
 'C17-1':"remainder taken modulo the slice size: needs more nodes than lines per node",
 'C17-2':"hermes2go end index collides with the no-limit guard: needs -lines 1-1",
 'C19-1':"explicit update based on the wrong time level: needs the first call after Init in a frost-free period",
 'C19-2':"diffusion loop runs one layer too far: lower boundary no longer fixed",
 'C20-1':"binary search misses the right neighbour in the last gap of the series",
 'C20-2':"mean of min/max groundwater level by integer division: needs an odd sum",
 'C03-1':"file pool returns the cached slice after releasing the mutex: needs two runs of a session hitting the same uncached file",
 'C03-2':"package-level sync.Map cache of crop-type names shared by all runs: needs two runs whose per-run crop tables differ",
 'C09-1':"root limit clamp moved from PhytoOut to Input (WURZMAX only): needs a shallow profile and a crop with WUMAXPF >= 12",
 'C09-2':"floor and cap of per-layer N uptake applied in the wrong order: needs a rooted layer with less than 0.75 kg N/ha",
 'C11-1':"dispatcher waits once instead of until a slot is free: needs more lines than slots and a log message arriving while it waits",
 'C11-2':"file pool key folded to lower case: needs two runs of a session reading files whose paths differ only in case",
 'C13-1':"station height/wind height copied unconditionally: needs a configured altitude, a layout without station line and ETpot 3/4",
 'C13-2':"CSV soil reader divides the drainage fraction by 100: needs a tile-drained soil given as CSV",
 'C14-1':"batch-line keys looked up by yaml tag: the five keys whose tag carries ',omitempty' are ignored on the line",
 'C14-2':"ResultFileFormat on the line clears ResultFileExt: needs both keys (line/line or line/file)",
 'C15-1':"groundwater update skipped for steps below 0.01 dm: needs a slowly moving table",
 'C15-2':"pedotransfer results rounded to whole Vol.%: needs PTF 1 and a Corg-free heavy silty clay",
 'C18-1':"initial-crop guard of the INITCONCN overrides lost its third conjunct: needs a permanent crop following a different crop",
 'C18-2':"organ index of PRO/DEAD overrides validated against the number of stages: needs more organs than stages",
'C01-3':"see NOTES.md in the seed directory",
 'C01-4':"saturated zone refilled on every day instead of on groundwater change days: needs a constant groundwater table inside the profile",
 'C04-3':"see NOTES.md in the seed directory",
 'C04-4':"year reload writes next year's first rain days to the fixed slots 365/366: needs a leap year (31 December overwritten)",
 'C05-3':"see NOTES.md in the seed directory",
 'C05-4':"instability text lists the unstable layers comma separated: needs CSV output and two layers unstable in the same sub-step",
 'C10-3':"same-day shift done while reading against the raw previous date: needs the schedule D, D, D+1",
 'C10-4':"tillage cursor catches up with overtaken dates: needs a pre-start tillage left in the slot (that second site was repaired by fix 3e8be87, the change no longer manifests on the current tree)",
 'C11-3':"error summary kept ordered by in-place insertion through an aliased slice: needs two failed lines whose results arrive out of order",
 'C11-4':"day loop without upper bound: needs a fertiliser prediction run whose end date is moved into the past (or an end date before the first harvest)",
 'C16-3':"rotation scan stops after the first block of the field: needs a rotation file whose entries of one field are not contiguous",
 'C16-4':"see NOTES.md in the seed directory",
 'C02-3':"leaching bookkeeping merged into one expression books a dispersive loss at the profile bottom: needs LeachingDepth equal to the number of layers",
 'C02-4':"sub-steps capped at 24 without adjusting the sub-step length: needs a day that requires more than 24 sub-steps and an N source on it",
 'C03-3':"package-level sync.Map cache of crop type -> crop code: needs two runs of a session with user-defined crop codes met in different order",
 'C03-4':"output line buffers recycled through a sync.Pool without clearing: needs CSV output and a column of an unsupported kind (open finding C05-column-kinds) so that a slot stays unfilled",
 'C06-3':"overflow cascade skipped on days with net infiltration: needs a layer that starts above field capacity (falling groundwater table)",
 'C06-4':"net radiation helper without the RS0 > 0 guard: 0/0 = NaN on a day without sunrise with ET method 3 or 4",
 'C07-3':"tillage mixing sums the mineralised-N counters over the mineralisation zone only but divides by the tilled layers: needs a tillage deeper than the mineralisation zone",
 'C07-4':"fixation hand-over value only reset for legumes: needs a legume harvested while fixing, followed by a non-legume",
 'C08-3':"uptake loop shortened to the uptake depth, stale uptake below a risen groundwater table: needs a table rising into the rooted zone",
 'C08-4':"potential ET capped from above only: needs Turc-Wendling below -22 C, Haude with negative deficit or a negative reference ET",
 'C09-3':"root limit clamp moved to the soil reader and replaced by the array size in PhytoOut: needs a shallow profile and a crop with WUMAXPF > 11",
 'C09-4':"YAML reader resets only the new crop's stages: needs a crop with few stages sown after one that reached stage 5/6",
 'C13-3':"shared reset helper called before (classic) / after (YAML) the stage count is read: same trigger as C09-4, shows as classic vs YAML difference",
 'C13-4':"multi-year CSV reader replaces a missing mean temperature by the min/max mean instead of leaving it to the neighbour interpolation: needs a 'no value' mean temperature",
 'C14-3':"batch-line keys indexed by the raw yaml tag (sync.Once cache): the five ',omitempty' keys are ignored on the line",
 'C14-4':"optional entries completed before the batch-line override: needs ResultFileFormat on the line without an extension (or WeatherRootFolder=./x)",
 'C15-3':"texture table re-read only when the groundwater enters another depth class, class helper misses the 35 dm limit of silt soils: needs the table route, a moving table and a silt soil",
 'C15-4':"pedotransfer functions dispatched through a table with one argument list: PTF4 receives silt instead of sand",
 'C18-3':"override's crop file matched by prefix: needs a rotation with PARAM.WR and PARAM.WRA",
 'C18-4':"correction factor of N-content function 8 computed when the crop file is read: a TSUM override leaves it stale",
 'C19-3':"number of sub-steps from a stability criterion that skips the last interior node: needs a moist dense layer N-2 under dry loose layers",
 'C19-4':"stone content folded into the bulk density used for the thermal properties: needs >= 60 % stones in a dense horizon",
 'C20-3':"series reader drops a record whose level equals the previous one: needs a plateau followed by a change",
 'C20-4':"mean of the polygon file's two levels by integer division: needs an odd sum",
}
NOTES={
 'C01-2':"first evaluation inconclusive (anchor text was the edited statement); anchors made prefix-based, then detected by C01.substeps.*",
 'C02-2':"missed by C02 (kernel nmove unaffected); detected by C07.source_term_layer_fresh after the mineral harness was given stale initial source terms",
 'C06-1':"missed by the single-step harness; detected after the day-level harness zzC06Day (k sub-steps) was added",
 'C07-1':"missed at first (tillage block not covered); detected after the tillage region was lifted (C07.tillage_preserves_pool_sums)",
 'C20-1':"first evaluation inconclusive (sort.SearchInts unmodelled); detected after sort.Search* was allowed to be inlined",
 'C20-2':"missed at first (set-up not covered); detected after the set-up/daily regions and sine lemma points were added",
 'C19-1':"first evaluation hit a transient lifter bug (load error); detected on re-evaluation",
 'C19-2':"first evaluation hit a transient lifter bug (load error); detected on re-evaluation",
 'C04-1':"missed at first (file readers not encoded); detected after the three readers were executed on token files (scanner model) and two year files are read in turn into the same buffer",
 'C04-2':"missed at first (all years had the same length in the harness); detected after years of different length were used",
 'C05-1':"missed at first; detected after the sub-step loop region with stubbed Water/PhytoOut/Nitro was added (interpreter replay)",
 'C05-2':"not detected by C05 (date text of records is not encoded there); detected by C12",
 'C08-2':"missed at first by C08 (caught by C06); detected by C08 after the day-level uptake obligation was added",
 'C10-1':"original patch targets the shift loop that was later repaired (fix c494e38); the rebased variant is detected by C10.shift.*",
 'C10-2':"missed at first; detected after the fertiliser-row region (dueng) was lifted",
 'C16-2':"missed at first; detected after all six automatic-N sites of Nitro were lifted (C16.autofert.*)",
 'C17-2':"missed at first; detected after the -lines parsing and the dispatch loop of hermes2go were lifted (spec C17L)",
 'C03-2':"missed by the FilePool harness; detected after the two-run non-interference mode (package state touched by a run) was added",
 'C09-1':"first evaluation unconfirmed (model of the stubbed root() did not replay); detected after the harness searches natively for a temperature sum that makes the real root() return the model's value",
 'C09-2':"missed at first (growth part of PhytoOut not covered); detected after the N uptake distribution region was lifted",
 'C11-1':"missed at first (dispatcher not encoded); detected after doConcurrentBatchRun was executed with the sequential select abstraction (interpreter replay)",
 'C13-1':"C13 was not claimed when the seed was made; detected by the weather layout harness",
 'C13-2':"C13 was not claimed when the seed was made; detected by the soil text/CSV harness",
 'C14-1':"first evaluation inconclusive (package initialiser used reflect.Type, unmodelled); detected after reflect.Type/StructField/StructTag were modelled",
 'C15-1':"first evaluation inconclusive (anchor was the edited statement); detected after fall-back anchors were added",
'C01-4':"missed at first; detected after the constant-groundwater day harness (C01.gwday.*) was added",
 'C04-4':"first inconclusive (the separate reload region reads a new variable); detected by the year-change-day harness once harness files were split per region and a failed region no longer takes the whole check down",
 'C05-4':"missed at first (strings.Join over a conditionally appended slice not modelled, no obligation on text values); detected after both were added (C05.text.*); the water contents are fixed in that harness so that the model replays natively",
 'C10-3':"detected by the fertiliser file reader harness (C10F, included in C10)",
 'C10-4':"no longer a valid seed: its cooperating site was repaired (fix 3e8be87); on the current tree the demo passes with the patch applied",
 'C11-3':"INCONCLUSIVE: append of a symbolic-length slice through an alias is not modelled; the new obligations C11.dispatch.failed_run_listed_exactly_once would decide it",
 'C11-4':"missed at first (the day loop of Run was not encoded as a loop); detected after the loop header was lifted with its body replaced by an iteration counter (header_of)",
 'C16-3':"detected by the rotation part of Input on token files (C10I, included in C16)",
 'C02-3':"detected by C02 (leaching depth at the profile bottom is one of the nmove instances)",
 'C02-4':"not detected by C02 (the kernels are unchanged); detected by C01.substeps.* (sub-step count x length = 1 day)",
 'C03-3':"detected by the two-run non-interference mode",
 'C03-4':"MISSED: sync.Pool is now modelled (LIFO of depth one, shared across the two runs) but the stale slot only shows for a column kind that the open finding C05-column-kinds carves out",
 'C06-4':"missed at first (ET methods 3/4 outside); detected after methods 3/4 were executed with concrete astronomy and a reachable division by zero is confirmed natively as a non-finite observed value",
 'C07-3':"missed at first (mineralisation depth was zero in the harness); detected after IZM became a symbolic input",
 'C07-4':"missed at first; detected after the hand-over value (SCHNORR) got its own obligation and an arbitrary value of the previous day",
 'C09-4':"missed at first; detected after the crop parameter readers were run against an arbitrary state of the previous crop (C09P)",
 'C13-3':"missed at first; detected by the same harness (every-field comparison classic vs converter+YAML)",
 'C13-4':"missed at first ('no value' excluded from the value domain); detected after a gap scenario was added",
 'C14-3':"first inconclusive (sync.Once unmodelled); detected after sync.Once was modelled",
 'C15-3':"MISSED: the texture table route (Hydro reads the parameter tables from files) is outside the claim",
 'C15-4':"missed at first (route only run for PTF 1-3); detected after the route was compared with a direct call of the selected function, PTF4 included",
 'C18-3':"missed at first; detected after the other-crop-file obligation was added",
 'C18-4':"first inconclusive (new division), comparison listed fields by hand; detected after the every-field comparison vSameState",
 'C19-3':"first inconclusive (regions no longer liftable); detected by the whole-routine instances on corner soils",
 'C19-4':"missed at first (stone content zero in the harness); detected after the soil description inputs were made symbolic",
 'C20-3':"missed at first (reader not encoded); detected after the reader was executed on token files",
}
rows=[]
for d in sorted(os.listdir(ROOT)):
    p=os.path.join(ROOT,d)
    if not os.path.isdir(p): continue
    prop=d.split('-')[0]
    conf=''
    try: conf=open(os.path.join(p,'confirm.log')).read().strip().split('\n')
    except Exception: conf=[]
    checks={}
    for f in sorted(glob.glob(os.path.join(p,'check_*.log'))):
        name=os.path.basename(f)[6:-4]
        txt=open(f).read()
        v=len(re.findall(r'^VIOLATION',txt,re.M))
        res=re.findall(r'^RESULT .*',txt,re.M)
        verdict='?'
        if res:
            verdict='VIOLATION' if 'VIOLATION' in res[-1] else ('PASS' if 'PASS' in res[-1] else 'INCONCLUSIVE')
        elif 'LOAD ERROR' in txt or 'LIFT ERROR' in txt: verdict='INCONCLUSIVE'
        obl=sorted(set(re.findall(r'obligation=(\S+)',txt)))
        checks[name]={'verdict':verdict,'violations':v,'obligations':obl[:6]}
    detected=[k for k,c in checks.items() if c['verdict']=='VIOLATION']
    meta={'seed':d,'property_broken':prop,'needs_to_manifest':NEEDS.get(d,''),
          'independent_confirmation':conf[-2:] if conf else [],
          'what_was_run':'tools/seedconfirm.sh (demo passes clean / fails patched, build ok, existing test set unchanged) and tools/seedrun.sh (checks against the scratch worktree with the patch applied via VERIF_REPO_ROOT)',
          'checks':checks,'detected_by':detected,'notes':NOTES.get(d,'')}
    json.dump(meta,open(os.path.join(p,'meta.json'),'w'),indent=1)
    rows.append((d,prop,','.join(detected) or '-', NOTES.get(d,'')))
for r in rows: print("| %s | %s | %s | %s |" % r)
