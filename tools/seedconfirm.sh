#!/bin/bash
# usage: seedconfirm.sh <worktree> <outdir> [pkgdir-relative-to-worktree, default hermes]
# Confirms independently: demo passes on clean tree, fails with the patch, project builds,
# and the set of passing existing tests is unchanged.
export GOFLAGS=-mod=mod GOWORK=off GOPROXY=off GOSUMDB=off GOTOOLCHAIN=local
WT=$1; OUT=$2; PKG=${3:-hermes}
cd $WT || exit 2
git checkout -q -- . ; rm -f $WT/$PKG/demo_test.go $WT/$PKG/zz_demo_test.go
TESTS=$(grep -h '^func Test' $OUT/demo_test.go | sed 's/func \(Test[A-Za-z0-9_]*\).*/\1/' | paste -sd'|' -)
passset() { (cd $WT/$PKG && go test -json -vet=off -count=1 ./... 2>/dev/null | python3 -c "
import sys,json
s=set()
for l in sys.stdin:
    try: e=json.loads(l)
    except Exception: continue
    if e.get('Action')=='pass' and e.get('Test'): s.add(e['Test'])
import hashlib; print(len(s)); print(hashlib.sha1('\n'.join(sorted(s)).encode()).hexdigest())" ) ; }
if [ ! -f $WT/_clean_passset ]; then passset > $WT/_clean_passset; fi
cp $OUT/demo_test.go $WT/$PKG/zz_demo_test.go
(cd $WT/$PKG && go test -vet=off -count=1 -run "^($TESTS)\$" . > $OUT/_clean.log 2>&1); c1=$?
rm -f $WT/$PKG/zz_demo_test.go
git apply $OUT/patch.diff || { echo "PATCH FAILED"; exit 2; }
(cd $WT/$PKG && go build ./... > $OUT/_build.log 2>&1); b=$?
passset > $OUT/_patched_passset
cp $OUT/demo_test.go $WT/$PKG/zz_demo_test.go
(cd $WT/$PKG && go test -vet=off -count=1 -run "^($TESTS)\$" . > $OUT/_patched.log 2>&1); c2=$?
rm -f $WT/$PKG/zz_demo_test.go
git checkout -q -- . ; rm -f $WT/$PKG/test_data/*.png 2>/dev/null
same=no; cmp -s $WT/_clean_passset $OUT/_patched_passset && same=yes
echo "demo_clean_exit=$c1 build_exit=$b demo_patched_exit=$c2 existing_tests_same=$same ($(head -1 $WT/_clean_passset) passing)"
if [ $c1 = 0 ] && [ $b = 0 ] && [ $c2 != 0 ] && [ $same = yes ]; then echo CONFIRMED; else echo NOT-CONFIRMED; fi
