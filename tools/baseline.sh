#!/bin/sh
# Runs the repository's pinned test suite (module hermes carries all 1610 stable
# tests) with the verif guard OFF and compares with /root/.vp/BASELINE.json.
cd /repo/hermes || exit 2
out=$(mktemp)
go test -json -vet=off -count=1 -timeout 25m ./... > "$out" 2>/dev/null
python3 - "$out" <<'PY'
import json, sys
passed=set()
for l in open(sys.argv[1]):
    try: e=json.loads(l)
    except Exception: continue
    if e.get('Action')=='pass' and e.get('Test'):
        passed.add(e['Package']+'::'+e['Test'])
base=set(json.load(open('/root/.vp/BASELINE.json'))['stable_pass'])
missing=sorted(base-passed)
print("baseline stable tests: %d, passing now: %d, missing: %d" % (len(base), len(base&passed), len(missing)))
for m in missing[:20]: print("  MISSING", m)
sys.exit(1 if missing else 0)
PY
rc=$?
rm -f "$out"
exit $rc
