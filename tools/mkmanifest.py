#!/usr/bin/env python3
"""Regenerates /verif/MANIFEST.json from the table below (claimed checks) and
properties.jsonl (everything not claimed goes to not_applicable)."""
import json, os
ROOT = '/verif'
TECH = "bounded symbolic execution of the Go SSA (symgo) + SMT (z3/cvc5), replay of models against the native build"
claimed = {
 # id: (level text, level note, design ref)
 "C01": ("One call of the real Water routine from an arbitrary symbolic soil state (1-3 layers quick, more thorough): profile balance, per-layer continuity with the flux array, cumulative counters and the flux post-conditions are proved for every real-valued input in the bound; the solver verdict decides, native replay confirms counterexamples.",
         "Exact-arithmetic (Real) semantics of the SSA with margin 1e-9; assumes the SOIL domain; day composition and sub-step count are separate obligations (see DESIGN).", "§6 C01"),
 "C02": ("One call of the real nmove routine from an arbitrary symbolic state: per-layer update law with the three clamps, telescoping dispersion, convection = bottom + drain loss, uptake clamp and counters; the daily balance follows by linear arithmetic (DESIGN §6 C02). Flux sign patterns are enumerated exhaustively for n<=3.",
         "Real arithmetic, exp uninterpreted (>0); FLUX pre-conditions are the post-conditions proved for Water under C01; leaching depth at profile bottom.", "§6 C02"),
}
props = [json.loads(l) for l in open(os.path.join(ROOT, 'properties.jsonl'))]
reasons = {}
try:
    reasons = json.load(open(os.path.join(ROOT, 'tools', 'na_reasons.json')))
except Exception:
    pass
checks = []
na = []
for p in props:
    pid = p['id']
    if pid in claimed and os.path.exists(os.path.join(ROOT, 'specs', pid + '.json')):
        text, note, ref = claimed[pid]
        checks.append({
            "property_id": pid,
            "quick_cmd": "./check %s --tier quick" % pid,
            "thorough_cmd": "./check %s --tier thorough" % pid,
            "evidence_file": "/verif/evidence/%s.json" % pid,
            "replay_cmd_template": "./check %s --replay {path}" % pid,
            "engine": "symgo",
            "level_claimed": {"category": "model_checking", "text": text, "design_ref": ref},
            "level_note": note,
            "technique": TECH,
        })
    else:
        na.append({"property_id": pid, "reason": reasons.get(pid, "machinery not completed yet (bring-up in progress)")})
m = {
 "version": 1,
 "setup_cmd": "cd /verif/engine && GOFLAGS=-mod=mod GOPROXY=off GOSUMDB=off GOTOOLCHAIN=local GOWORK=off go build -o /verif/bin/symgo ./cmd/symgo",
 "hooks": {
  "guard": "verif",
  "enable": "none needed: harnesses are injected with go/packages overlays (analysis) and go test -overlay (replay); /repo carries no hooks",
  "baseline_off_cmd": "/verif/tools/baseline.sh",
  "source_commits": [],
  "add_only": True
 },
 "engines": [{"name": "symgo", "path": "/verif/engine", "serves_properties": [c["property_id"] for c in checks],
              "kind_free_text": "symbolic executor for go/ssa (bounded, merged, unwinding assertions) emitting SMT-LIB2 for z3 4.8.12 / cvc5 1.0.3 / cvc5 1.4 (python wheel)"}],
 "checks": checks,
 "not_applicable": na,
 "notes": "exit 0 = all obligations discharged; exit 1 = replay-confirmed violation; exit 3 = inconclusive (solver unknown, unsupported construct, vacuous obligation). Repairs of genuine defects in /repo are 'fix:' commits listed in known_findings.json."
}
json.dump(m, open(os.path.join(ROOT, 'MANIFEST.json'), 'w'), indent=1)
print("claimed:", [c["property_id"] for c in checks], "not_applicable:", len(na))
