#!/usr/bin/env python3
"""Regenerates /verif/MANIFEST.json from the table below (claimed checks) and
properties.jsonl (everything not claimed goes to not_applicable)."""
import json, os
ROOT = '/verif'
TECH = "bounded symbolic execution of the Go SSA (symgo) + SMT (z3/cvc5), replay of models against the native build"
claimed = {
 # id: (level text, level note, design ref)
 "C01": ("One call of the real Water routine from an arbitrary symbolic soil state (1-3 layers quick, more thorough): profile balance, per-layer continuity with the flux array, cumulative counters and the flux post-conditions are proved for every real-valued input in the bound; the solver verdict decides, native replay confirms counterexamples.",
         "Exact-arithmetic (Real) semantics of the SSA with margin 1e-9; assumes the SOIL domain; day composition and sub-step count are separate obligations (see DESIGN).", "§6 C01"),
 "C02": ("One call of the real nmove routine from an arbitrary symbolic state: per-layer update law with the three clamps, telescoping dispersion, convection = bottom + drain loss, uptake clamp and counters; the daily balance follows by linear arithmetic (DESIGN §6 C02). Flux sign patterns are enumerated exhaustively for n<=3.",
         "Real arithmetic, exp uninterpreted (>0); FLUX pre-conditions are the post-conditions proved for Water under C01; leaching depth at profile bottom.", "§6 C02"),
 "C06": ("One Water step from an arbitrary state: every layer's new water content <= field capacity + the largest tabulated capillary-rise increment and >= one third of the wilting point when it started there; no division by zero; Init establishes the water state and W = PORGES below the groundwater table. Potential ET of all five methods free of division by zero / out-of-domain calls; a reachable one is replayed natively and reported when an observed value is NaN/Inf (methods 3/4 at two latitudes x two solstices incl. a day without sunrise).",
         "Real arithmetic; later sub-steps assume the sub-step uptake fits the water above the dryness limit (invariant set up by the first sub-step's clamp).", "§6 C06"),
 "C07": ("One call of mineral (1-3 layers, frozen and warm branch) and of nmove (first / later sub-step): pool + mineralised counter constant per layer, pools and counters non-negative/monotone, dissolved <= applied, source term equals counter changes, uptake and fixation credited on the first sub-step only. Tillage mixing for every depth of the mineralisation zone; daily fixation >= 0 and the amount handed to the transport routine is today's fixation (legume or not, whatever the previous day left).",
         "Real arithmetic; exp uninterpreted with natively evaluated lemma points at 60.5 C and monotonicity; NSTATE invariant assumed at entry and re-established.", "§6 C07"),
 "C15": ("PTF1-3 ordering over all admissible texture triples, calcWRed strictly between WP and FC, setFieldCapacityWithGW (W = PORGES below the table, untouched above). PTF route of Input (lifted): threshold between WP and FC, and the layer gets exactly the values of the selected transfer function called with its own arguments (all four functions); groundwater-change block restores from the backups.",
         "Real arithmetic; PTF4 is not decided (outside the claim).", "§6 C15"),
 "C19": ("Soiltemp cut by the region lifter into prefix / one hourly iteration / suffix (verbatim source): diffusion number in [0,1/2] for all admissible BD, humus, water contents; one explicit step keeps every layer inside the envelope [lo,hi] of the previous profile and the boundary values (inductive step, any of the 24 iterations); daily means stay inside. Additionally the whole routine (not cut) on the 4^n corner soils with all temperatures symbolic (linear): every layer temperature and daily mean inside the envelope; stone content and horizons symbolic in the prefix.",
         "Real arithmetic, exp/pow uninterpreted with range axioms; induction over the 24 iterations and over days is by the partition of the function body (lifter) and the stated invariant.", "§6 C19"),
 "C20": ("GetGroundWaterLevel on a symbolic ascending series of k<=3 (thorough 5) timestamps: exact hit, linear interpolation within neighbours, nearest value outside, no error for a non-empty series. The series reader on token files (one support point per record in file order, also for equal consecutive levels; level on a given date = series value); polygon min/max set-up and daily level inside [min,max].",
         "Real/Int arithmetic; map with symbolic keys modelled as association list with presence conditions.", "§6 C20"),
 "C12": ("The real DateConverter / KalenderConverter / KalenderDate closures executed symbolically over the whole domain (day numbers 1..72684, all valid date texts as symbolic digit bytes, 4 formats x separators, century split symbolic): number->text->number and text->number->text round trips, successor law, day-of-year, leap years, calendar validity.",
         "Integer (Int) arithmetic with every int64 overflow proved absent as side obligation; fmt.Sprintf/strconv modelled at digit level (stubs listed in evidence).", "§6 C12"),
 "C17": ("main() of calcHermesBatch executed symbolically with the file reader replaced by an arbitrary line count: for every line count >= nodes (nodes 1..16 quick, 64 thorough) and every enumerated count below, the printed ranges are as many as the reported size, contiguous from 1 and end at the last line; lineCounter equals the simulator's executed-line count for all byte buffers up to 4 (thorough 6) bytes in one or two chunks.",
         "Int arithmetic; printed text modelled as segments (literal text + decimal rendering of an int term); hermes2go's -lines dispatch (goroutines) not encoded.", "§6 C17"),
 "C04": ("transformWeatherData, replaceMissingValues and LoadYear executed symbolically on 1-3 years of T<=3 days with every value (and the sentinel) symbolic: mm->cm with correction, PAR = half radiation, wind floor on every day, gap = mean of the calendar-adjacent days also across the year change, present values untouched, year lookup copies exactly the requested year or returns an error. The three file readers executed on token files (multi-year CSV, day-of-year, yearly; date scenarios across leap years, gaps, repeated days => error), two yearly files in turn, the first day of a new year after a leap-year change, and a 'no value' in an optional column filled by the mean of the adjacent days in every layout.",
         "Real arithmetic; year length shrunk (routines parametric in MaxYearDays); the three file readers' text handling and the discarded LoadYear error at the call sites are outside this check (see DESIGN).", "§6 C04"),
 "C03": ("Reduced to the one shared mutable object of a session: FilePool.Get executed symbolically from arbitrary cache states returns the content of exactly the requested path, keeps the cache invariant, touches the cache only while the ghost mutex flag is set and releases it. Race freedom on this object follows by the lockset argument; everything quantified over goroutine schedules is outside.",
         "os.ReadFile stubbed as a function of the path; sync.Mutex as ghost flag; no interleavings are explored (not encodable with this technique).", "A3 C03"),
 "C05": ("Regions of the day loop lifted verbatim: daily record iff interval day, yearly record iff day-of-year equals OUTDAY (with counter reset), exactly one crop record per finished cycle over k<=4 sub-steps, and the day on which the yearly record falls against the configured date in every simulated year (open known finding).",
         "WriteLine stubbed and counted; Water/PhytoOut/Nitro stubbed in the sub-step loop (interpreter replay); field counts per column kind and whole-run record counts are outside.", "A3 C05"),
 "C08": ("Potential ET cap/non-negativity for ET methods 1,2,5 (crop branch), activity factors, and the uptake distribution/redistribution of Evatra (lifted regions) for n<=3 layers with share abstraction: uptake >= 0, none below roots or groundwater, sum <= potential transpiration, actual <= potential ET, stress ratios in [0,1]; daily uptake <= plant-available water over k sub-steps. ET methods 3 and 4 with symbolic weather at four concrete (latitude, day) pairs: reference ET >= 0, potential ET in [0, 0.65]; bare-soil branch (all five methods): potential ET in [0, 0.6], all of it evaporation.",
         "Real arithmetic; quotient shares abstracted by share variables with linear lemmas plus defining equations; methods 3/4 only at the listed (latitude, day) instances.", "A3 C08"),
 "C10": ("One-step induction of the fertiliser, irrigation and tillage cursors (lifted from Nitro/Run), the same-day shift loops and the fertiliser table split (lifted from Input/dueng) for k<=4 events with symbolic dates and amounts. Schedule file readers (fertiliser, tillage, irrigation, rotation part of Input) executed on token files: pre-start events dropped, others kept in order, dates strictly ascending, never early, at most one day late.",
         "Event-log writers stubbed; schedule file readers and pre-start drop outside. Schedule readers are regions of Input with Session.Open replaced by a scanner over harness lines (natively real files).", "A3 C10"),
 "C11": ("Reduced to termination of the fertiliser-prediction day-length search: for every latitude in [49.2,65] N day 150 is longer than 14 h and day 172 longer than 16 h (uninterpreted sin/cos/asin with natively evaluated lemma points), the real loops at 45/50/55/60 degrees; non-termination below ~48.6 degrees is an open known finding. Isolation of concurrent runs is outside (schedules). The real doConcurrentBatchRun under a sequential select abstraction (every arrival order of results and log messages, 1-3 lines x 1-2 slots): every line started exactly once, every result collected, error count = failed results, the summary lists every failed run exactly once and no successful one, no deadlock.",
         "Trigonometric functions uninterpreted with monotonicity and lemma points; concrete-latitude runs are interpreter runs of the real closure. Goroutine schedules beyond the select abstraction are outside.", "A3 C11"),
 "C16": ("Automatic irrigation and automatic sowing blocks of the day loop lifted verbatim: irrigation only after sowing, within the stage window, at most the daily maximum; sowing inside the window, after the previous harvest, forced on the window's last day (inductive invariant). Automatic harvest (today, not later than the latest date, forced the day before it), all six automatic N sites >= 0, and the rotation part of Input on token files (crops in file order, dates of the file).",
         "Real/Int arithmetic; automatic harvest, automatic N and the crop switch are outside.", "A3 C16"),
 "C18": ("Assignment part of ReadCropParamYml lifted; for every overridable base, stage and partition parameter: state after file+override equals state after reading the edited parameter set, or equals the no-override state (rejected as a whole). The comparison covers every field of both state structs (deep comparison, so quantities derived at read time are included); an override leaves every other crop file alone and is applied to the addressed file in any directory.",
         "yaml.Unmarshal replaced by an arbitrary parameter set with 2 organs x 2 stages; 'results' reduced to the parameter state handed to the crop model.", "A3 C18"),
 "C13": ("Paired readers executed on the same content in both encodings, with every number symbolic (numeric tokens or symbolic decimal digits): the three weather layouts give the same year in the run state after LoadYear (daily values, year length, station and wind height); soil profile text vs CSV give the same SoilFileData (any CSV column order); measured initial values text vs CSV give the same initial water/N state (both header spellings, methods 1-3); rotation text vs CSV resolve every column to the same field text; a classic crop parameter file read directly and read through the shipped converter plus the YAML reader's assignment part gives the same crop state; a date in the four formats gives the same day number. Crop parameter readers are compared in every field of the run and crop state (deep comparison) from an arbitrary state of the previous crop; a 'no value' in an optional weather column is filled identically in every layout.",
         "bufio.Scanner / time.Parse / Session.Open are executor models (line lists stand for files; natively the real files are written and read by the real code); the YAML text between converter and reader (yaml.Marshal/Unmarshal) is taken as the identity; 'byte-identical results' is reduced to 'identical state handed to the model'.", "A3 C13"),
 "C14": ("readConfig / commandlineOverride (real code) executed symbolically with every scalar key of Config present or absent on the batch line under its own symbolic boolean and with a symbolic value, a configuration file that exists or not and sets an arbitrary subset of the keys to arbitrary values, and a key that does not exist: for every key the effective value (and the run state derived from it) is the batch-line value, else the file value, else the default; ascending and descending map iteration order; token loop of Run lifted: key=value tokens in 16 orders with symbolic digits give the value used.",
         "reflect is the executor's own model of the subset used (DESIGN A1); yaml.Unmarshal is replaced by a harness model that writes the planned keys through reflect and the real UnmarshalYAML methods; co-simulated against the real yaml/reflect libraries on solver models; string keys from four candidate families.", "A3 C14"),
 "C09": ("Parts of PhytoOut cut out as regions and executed from an arbitrary valid crop state: the development stage index never decreases, advances by at most one and only when the stage's temperature sum is reached, never beyond the last stage, and records the phenology day; the rooting depth is within the profile and the soil's root limit for any value of the root function (contract proved on the real root()); daily N uptake per rooted layer >= 0 and leaves the residual; the growth step (N stress factor, assimilate partitioning, dying, leaf area, above-ground/root mass, assimilate pool; 3-5 organs, cereal / beet / permanent crop): stress factor in [0,1], no organ mass, LAI, biomass or pool negative, above-ground mass positive, dead mass <= organ mass, crop N content only loses the dead leaf/stem N; the nine N-content functions give positive concentrations; tissue N concentrations: root concentration between its floor and the stage maximum, shoot N + root N = crop N content + uptake + fixation, shoot concentration >= 0 outside two stated corners.",
         "Real arithmetic, exp/pow uninterpreted with sign/monotonicity axioms; root() stubbed by arbitrary results within its proved contract; the photosynthesis routine's outputs are inputs (>= 0); two region-level corners of the shoot N concentration are outside (DESIGN A3).", "A3 C09"),
}
props = [json.loads(l) for l in open(os.path.join(ROOT, 'properties.jsonl'))]
reasons = {}
try:
    reasons = json.load(open(os.path.join(ROOT, 'tools', 'na_reasons.json')))
except Exception:
    pass
checks = []
na = []
for p in props:
    pid = p['id']
    if pid in claimed and os.path.exists(os.path.join(ROOT, 'specs', pid + '.json')):
        text, note, ref = claimed[pid]
        checks.append({
            "property_id": pid,
            "quick_cmd": "./check %s --tier quick" % pid,
            "thorough_cmd": "./check %s --tier thorough" % pid,
            "evidence_file": "/verif/evidence/%s.json" % pid,
            "replay_cmd_template": "./check %s --replay {path}" % pid,
            "engine": "symgo",
            "level_claimed": {"category": "model_checking", "text": text, "design_ref": ref},
            "level_note": note,
            "technique": TECH,
        })
    else:
        na.append({"property_id": pid, "reason": reasons.get(pid, "machinery not completed yet (bring-up in progress)")})
m = {
 "version": 1,
 "setup_cmd": "cd /verif/engine && GOFLAGS=-mod=mod GOPROXY=off GOSUMDB=off GOTOOLCHAIN=local GOWORK=off go build -o /verif/bin/symgo ./cmd/symgo",
 "hooks": {
  "guard": "verif",
  "enable": "none needed: harnesses are injected with go/packages overlays (analysis) and go test -overlay (replay); /repo carries no hooks",
  "baseline_off_cmd": "/verif/tools/baseline.sh",
  "source_commits": [],
  "add_only": True
 },
 "engines": [{"name": "symgo", "path": "/verif/engine", "serves_properties": [c["property_id"] for c in checks],
              "kind_free_text": "symbolic executor for go/ssa (bounded, merged, unwinding assertions) emitting SMT-LIB2 for z3 4.8.12 / z3 5.1.0 / cvc5 1.0.3 / cvc5 1.4 (python wheel)"}],
 "checks": checks,
 "not_applicable": na,
 "notes": "exit 0 = all obligations discharged; exit 1 = replay-confirmed violation; exit 3 = inconclusive (solver unknown, unsupported construct, vacuous obligation). Repairs of genuine defects in /repo are 'fix:' commits listed in known_findings.json."
}
json.dump(m, open(os.path.join(ROOT, 'MANIFEST.json'), 'w'), indent=1)
print("claimed:", [c["property_id"] for c in checks], "not_applicable:", len(na))
