#!/usr/bin/env python3
"""Maintenance tool: for every spec with regions, asks the lifter (on the current, unchanged tree) for the
parameter order and the neighbouring statements of each region and records them in the spec:
 - "params" is pinned where it was missing (a region that later gains a free variable keeps its harness interface),
 - "select_alt" gets neighbour-based fall-back anchors (statement before / after the region) where missing.
Run only on a tree where all checks pass."""
import json, os, subprocess, sys, glob
os.chdir('/verif')
for f in sorted(glob.glob('specs/*.json')):
    d = json.load(open(f))
    if not d.get('regions'):
        continue
    out = '/tmp/autoalt_%s.json' % os.path.basename(f)
    if os.path.exists(out):
        os.remove(out)
    name = os.path.basename(f)[:-5]
    subprocess.run(['./check', name, '--only', '__none__'], env=dict(os.environ, VERIF_AUTOALT=out, VERIF_ALT_OUT='/tmp/autoalt-out'),
                   stdout=subprocess.DEVNULL, stderr=subprocess.DEVNULL)
    if not os.path.exists(out):
        print(f, 'no lifter output'); continue
    auto = json.load(open(out))
    changed = False
    for r in d['regions']:
        a = auto.get(r['name'])
        if not a:
            continue
        if not r.get('params') and a.get('params'):
            r['params'] = a['params']; changed = True
        have = r.get('select_alt') or []
        for alt in a.get('select_alt') or []:
            alt = {k: v for k, v in alt.items() if v not in ("", 0)}
            if alt not in have:
                have.append(alt); changed = True
        if have:
            r['select_alt'] = have
        if a.get('writes') and r.get('writes') != a['writes']:
            r['writes'] = a['writes']; changed = True
    if changed:
        json.dump(d, open(f, 'w'), indent=1)
        print(f, 'updated')
