#!/bin/bash
# Re-evaluates every stored seed against the current checks (scratch worktrees at /repo's HEAD).
# usage: seedfinal.sh <seed-id>...   e.g. seedfinal.sh C01-1 C01-2
export GOFLAGS=-mod=mod GOWORK=off GOPROXY=off GOSUMDB=off GOTOOLCHAIN=local
declare -A EXTRA=( [C14-6]="C03" [C02-6]="C01" [C02-5]="C07" [C08-5]="C01" [C16-6]="C03" [C17-4]="C11" [C04-6]="C03" [C11-6]="C03" [C02-4]="C01" [C02-2]="C07" [C05-2]="C12" [C08-2]="C06" [C11-2]="C03" [C05-4]="C02" )
H=$(git -C /repo rev-parse HEAD)
for s in "$@"; do
  prop=${s%%-*}
  wt=/tmp/seedfinal/$s
  rm -rf $wt; git -C /repo worktree prune; git -C /repo worktree add -q --detach $wt $H || continue
  patch=/verif/seeded/$s/patch.diff
  [ -f /verif/seeded/$s/patch_rebased.diff ] && patch=/verif/seeded/$s/patch_rebased.diff
  if ! git -C $wt apply $patch 2>/dev/null; then echo "$s PATCH-DOES-NOT-APPLY-TO-HEAD"; git -C /repo worktree remove --force $wt; continue; fi
  out=""
  for c in $prop ${EXTRA[$s]}; do
    [ -f /verif/specs/$c.json ] || continue
    (cd /verif && VERIF_REPO_ROOT=$wt VERIF_ALT_OUT=/tmp/verif-alt/final-$s timeout 2400 ./check $c > /verif/seeded/$s/check_$c.log 2>&1); rc=$?
    out="$out $c:exit=$rc:violations=$(grep -c '^VIOLATION' /verif/seeded/$s/check_$c.log)"
  done
  echo "$s$out"
  git -C /repo worktree remove --force $wt
done
