#!/bin/bash
# runs every claimed check (quick) and prints one line each
cd /verif
for p in $(python3 -c "import json; print(' '.join(c['property_id'] for c in json.load(open('MANIFEST.json'))['checks']))") "$@"; do
  r=$(./check $p 2>&1 | tail -1); echo "$r"
done
