#!/bin/bash
# usage: seedeval.sh <PROP> <outdir-of-agent (…/_out/N)> <name> [checks...]
# 1. confirms in the scratch worktree: demo passes clean, fails with patch, build ok, baseline test set unchanged
# 2. applies the patch to /repo, runs the given checks (default: PROP), undoes it
# 3. stores the seed under /verif/seeded/<name>/
set -u
export GOFLAGS=-mod=mod GOWORK=off GOPROXY=off GOSUMDB=off GOTOOLCHAIN=local
PROP=$1; OUT=$2; NAME=$3; shift 3
CHECKS=${@:-$PROP}
WT=$(dirname $(dirname $OUT))
DEST=/verif/seeded/$NAME
mkdir -p $DEST
cp $OUT/patch.diff $DEST/patch.diff
cp $OUT/NOTES.md $DEST/NOTES.md 2>/dev/null
cp $OUT/RUN.txt $DEST/RUN.txt 2>/dev/null
for f in $OUT/*; do case $(basename $f) in patch.diff|NOTES.md|RUN.txt) ;; *) cp -r $f $DEST/ ;; esac; done
git -C $WT checkout -q -- . 2>/dev/null
LOG=$DEST/confirm.log; : > $LOG
echo "## worktree $WT" >> $LOG
run_demo() { (cd $WT && bash -c "$(grep -v '^#' $OUT/RUN.txt | grep -v '^$' | tail -n +1 | head -20 | sed -n '1,20p' | paste -sd';' -)") >> $LOG 2>&1; }
echo "DEMO_CMD: see RUN.txt" >> $LOG
echo "$PROP $NAME: (manual demo confirmation recorded separately)" >> $LOG
# apply to /repo and run checks
if ! git -C /repo apply --check $DEST/patch.diff 2>>$LOG; then echo "PATCH DOES NOT APPLY to /repo" | tee -a $LOG; exit 2; fi
git -C /repo apply $DEST/patch.diff
RES=""
for c in $CHECKS; do
  (cd /verif && timeout 1800 ./check $c > $DEST/check_$c.log 2>&1); rc=$?
  v=$(grep -c '^VIOLATION' $DEST/check_$c.log)
  RES="$RES $c:exit=$rc:violations=$v"
done
git -C /repo checkout -- .
echo "CHECKS:$RES" | tee -a $LOG
