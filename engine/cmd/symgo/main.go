package main

import (
	"fmt"
	"os"
	"strconv"
	"time"

	"symgo/sym"
)

func main() {
	if len(os.Args) < 2 {
		fmt.Println("usage: symgo run <dir> <harnessdir> <harness> [args...] | check <ID> [--tier quick|thorough]")
		os.Exit(2)
	}
	switch os.Args[1] {
	case "run":
		cmdRun(os.Args[2:])
	default:
		os.Exit(mainCheck(os.Args[1:]))
	}
}

func cmdRun(a []string) {
	dir, hdir, h := a[0], a[1], a[2]
	var args []int64
	for _, s := range a[3:] {
		v, _ := strconv.ParseInt(s, 10, 64)
		args = append(args, v)
	}
	t0 := time.Now()
	ld, err := sym.Load(dir, []string{hdir}, nil)
	if err != nil {
		fmt.Println("load:", err)
		os.Exit(3)
	}
	fmt.Printf("loaded in %.1fs\n", time.Since(t0).Seconds())
	e := sym.NewExec(ld.Prog, ld.Pkg, "R")
	if u := os.Getenv("UNWIND"); u != "" {
		e.Unwind, _ = strconv.Atoi(u)
	}
	t0 = time.Now()
	err = e.RunHarness(h, args)
	fmt.Printf("executed in %.2fs: blocks=%d edges=%d merges=%d terms=%d\n", time.Since(t0).Seconds(), e.BlocksExec, e.EdgesExec, e.Merges, e.S.NumTerms())
	if err != nil {
		fmt.Println("ERROR:", err)
		os.Exit(3)
	}
	fmt.Printf("obligations=%d sides=%d aborts=%d covers=%d unwinds=%d inputs=%d axioms=%d\n", len(e.Obls), len(e.Sides), len(e.Aborts), len(e.Covers), len(e.Unwinds), len(e.Inputs), len(e.Axioms))
	agg := map[string]int{}
	for _, ab := range e.Aborts {
		agg["abort "+ab.Kind+" @"+ab.Where+" "+ab.Msg]++
	}
	for _, so := range e.Sides {
		agg["side "+so.Kind+" @"+so.Where]++
	}
	for _, u := range e.Unwinds {
		agg["unwind @"+u.Where]++
	}
	for k, n := range agg {
		fmt.Printf("  %s x%d\n", k, n)
	}
	var inputs []*sym.Term
	for _, in := range e.Inputs {
		inputs = append(inputs, in.Term)
	}
	for _, o := range e.Obls {
		smt := e.BuildSMT([]*sym.Term{o.Guard, e.S.Not(o.Cond)}, inputs)
		if os.Getenv("DUMP") != "" {
			os.WriteFile("/tmp/q_"+o.ID+".smt2", []byte(smt), 0644)
		}
		r := sym.RunPortfolio(smt, 60*time.Second, []string{"z3", "cvc5", "cvc5n"})
		fmt.Printf("  obligation %s @%s: %s (%s %.2fs) %v\n", o.ID, o.Where, r.Status, r.Solver, r.Secs, r.All)
		if r.Status == "sat" {
			for i, in := range e.Inputs {
				if i < len(r.Values) {
					fmt.Printf("     %s = %s\n", in.Name, r.Values[i])
				}
			}
		}
	}
}
