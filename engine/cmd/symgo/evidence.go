package main

import (
	"encoding/json"
	"fmt"
	"math"
	"math/big"
	"os"
	"os/exec"
	"path/filepath"
	"sort"
	"strconv"
	"strings"

	"symgo/sym"
)

func cosim(e *sym.Exec, spec *Spec, rs *RunSpec, args []int64, model map[string]string, res *instResult, known map[string]bool) {
	env := map[string]sym.EVal{}
	for _, in := range e.Inputs {
		s, ok := model[in.Name]
		if !ok {
			s = "0"
			if in.Kind == "bool" {
				s = "false"
			}
			model[in.Name] = s
		}
		switch in.Kind {
		case "bool":
			env[in.Name] = sym.EVal{B: s == "true"}
		case "int", "byte":
			bi, _ := new(big.Int).SetString(s, 10)
			if bi == nil {
				bi = new(big.Int)
			}
			env[in.Name] = sym.EVal{R: new(big.Rat).SetInt(bi)}
		case "float":
			f, _ := strconv.ParseFloat(s, 64)
			r := new(big.Rat)
			r.SetFloat64(f)
			env[in.Name] = sym.EVal{R: r}
		}
	}
	memo := map[int]sym.EVal{}
	type ob struct {
		name string
		val  float64
		str  string
		isS  bool
	}
	var want []ob
	for _, o := range e.Observes {
		g, err := e.S.Eval(o.Guard, env, memo)
		if err != nil {
			return // model outside the evaluable domain: skip silently
		}
		if !g.B {
			continue
		}
		if o.Term == nil {
			str, ok := e.EvalStr(o.Str, env, memo)
			if !ok {
				return
			}
			want = append(want, ob{name: o.Name, str: str, isS: true})
			continue
		}
		v, err := e.S.Eval(o.Term, env, memo)
		if err != nil {
			return
		}
		f := 0.0
		if o.Term.Sort.K == sym.KBool {
			if v.B {
				f = 1
			}
		} else {
			f, _ = v.R.Float64()
		}
		want = append(want, ob{name: o.Name, val: f})
	}
	_, assumeBad, out, err := nativeReplay(spec, rs.Harness, toInts(args), model, knownList(known))
	if err != nil || assumeBad {
		return // rounded model left the assumed domain; no comparison possible
	}
	var got []ob
	for _, l := range strings.Split(out, "\n") {
		l = strings.TrimSpace(l)
		if strings.HasPrefix(l, "VERIF-OBS ") {
			f := strings.SplitN(l, " ", 3)
			if len(f) == 3 && strings.HasPrefix(f[2], "\"") {
				if u, err := strconv.Unquote(f[2]); err == nil {
					got = append(got, ob{name: f[1], str: u, isS: true})
				}
			} else if len(f) == 3 {
				v, _ := strconv.ParseFloat(f[2], 64)
				got = append(got, ob{name: f[1], val: v})
			}
		}
	}
	if len(want) == 0 {
		return // the rounded model left the path condition in exact arithmetic: nothing to compare
	}
	if len(got) != len(want) {
		res.cosimBad = append(res.cosimBad, fmt.Sprintf("observation count symbolic=%d native=%d", len(want), len(got)))
		return
	}
	for i := range want {
		if want[i].isS || got[i].isS {
			if want[i].name != got[i].name || want[i].isS != got[i].isS || want[i].str != got[i].str {
				res.cosimBad = append(res.cosimBad, fmt.Sprintf("%s symbolic=%q native=%s=%q", want[i].name, want[i].str, got[i].name, got[i].str))
				return
			}
			continue
		}
		if want[i].name != got[i].name || math.Abs(want[i].val-got[i].val) > 1e-6*(1+math.Abs(want[i].val)) {
			res.cosimBad = append(res.cosimBad, fmt.Sprintf("%s symbolic=%g native=%s=%g", want[i].name, want[i].val, got[i].name, got[i].val))
			return
		}
	}
	res.cosimOK += len(want)
}

func gitDescribe(dir string) string {
	out, err := exec.Command("git", "-C", dir, "rev-parse", "--short", "HEAD").Output()
	if err != nil {
		return "unknown"
	}
	st, _ := exec.Command("git", "-C", dir, "status", "--porcelain", "--untracked-files=no").Output()
	s := strings.TrimSpace(string(out))
	if len(strings.TrimSpace(string(st))) > 0 {
		s += "-dirty"
	}
	return s
}

func writeEvidence(spec *Spec, tier string, seed int64, results []*instResult, wall float64, nviol int, notes []string, findings []Finding) {
	states, transitions, evaluations, obligations, discharged, nontrivial, traces := 0, 0, 0, 0, 0, 0, 0
	solverTime := 0.0
	funcs := map[string]string{}
	stubs := map[string]int{}
	fsites := map[string]string{}
	ufs := map[string]int{}
	var samples []interface{}
	var bounds []string
	sampleSMT := ""
	distinct := map[string]bool{}
	for _, r := range results {
		if r == nil {
			continue
		}
		states += r.blocks
		transitions += r.edges
		traces += r.cosimOK
		bounds = append(bounds, r.name)
		for k, v := range r.funcs {
			funcs[k] = v
		}
		for k, v := range r.stubs {
			stubs[k] += v
		}
		for k, v := range r.floatSites {
			fsites[k] = v
		}
		for k, v := range r.ufs {
			ufs[k] += v
		}
		if sampleSMT == "" && r.sampleSMT != "" {
			sampleSMT = r.sampleSMT
			if len(sampleSMT) > 6000 {
				sampleSMT = sampleSMT[:6000] + "\n; ... truncated"
			}
		}
		_ = 0
		reached := map[string]bool{}
		for _, q := range r.queries {
			if q.Kind == "reach" && q.Status == "sat" {
				reached[q.ID] = true
				if i := strings.Index(q.ID, "#"); i >= 0 {
					reached[q.ID[:i]] = true
				}
			}
		}
		for _, q := range r.queries {
			evaluations++
			solverTime += q.Secs
			if q.Kind == "reach" {
				continue
			}
			obligations++
			if q.Status == q.Expect {
				discharged++
				if q.Kind == "obligation" && reached[q.ID] {
					if !distinct[r.name+"/"+q.ID] {
						distinct[r.name+"/"+q.ID] = true
						nontrivial++
					}
				}
			}
			if len(samples) < 400 {
				samples = append(samples, map[string]interface{}{"instance": q.Instance, "kind": q.Kind, "id": q.ID, "expect": q.Expect, "verdict": q.Status, "solver": q.Solver, "secs": math.Round(q.Secs*1000) / 1000, "where": q.Where})
			}
		}
	}
	if len(samples) == 0 {
		samples = append(samples, map[string]interface{}{"note": "no query was run", "notes": notes})
	}
	var fnames []string
	for k, v := range funcs {
		fnames = append(fnames, k+"#"+v)
	}
	sort.Strings(fnames)
	level := spec.Level
	if level == "" {
		level = "model_checking"
	}
	var kf []string
	for _, f := range findings {
		if f.Property == spec.Property {
			kf = append(kf, f.Status+": "+f.ID+" "+f.What)
		}
	}
	cov := map[string]interface{}{
		"states":                        max1(states),
		"transitions":                   max1(transitions),
		"traces_validated_against_impl": traces,
		"samples":                       samples,
		"obligations":                   obligations,
		"discharged":                    discharged,
		"evaluations":                   max1(evaluations),
		"distinct_nontrivial":           nontrivial,
		"rule":                          "one evaluation = one SMT query (obligation, reachability witness, coverage witness, side condition, abort reachability or unwinding assertion) generated from the SSA of the current /repo tree; an obligation counts as distinct and non-trivial when it belongs to a different (harness instance, obligation id) pair, was answered unsat, and its reachability twin (same path guard, assertion replaced by false) was answered sat",
		"explanation":                   "bounded symbolic execution of the real Go functions (go/ssa, loops unrolled with unwinding assertions, joins merged with ite); each obligation is decided by an SMT solver for all inputs inside the stated bound; states = SSA basic-block instances executed symbolically, transitions = CFG edges taken; traces_validated_against_impl = observation points whose symbolic value under a solver model equalled the natively executed real code (translator validation, not a property verdict)",
		"functions_encoded":             fnames,
		"bounds":                        bounds,
		"stubs":                         stubs,
		"float_sites":                   fsites,
		"uninterpreted_math":            ufs,
		"solver_time_s":                 math.Round(solverTime*100) / 100,
		"checker_cmd":                   "/verif/check " + spec.Property + " --tier " + tier,
		"trusted_base":                  append([]string{"go/ssa (x/tools v0.29.0) as the semantics of the source", "symgo executor (/verif/engine): SSA -> SMT-LIB translation, merging, memory model", "z3 4.8.12 / cvc5 1.0 (an obligation counts only if one says unsat and none says sat)"}, spec.Trusted...),
		"repo_state":                    gitDescribe(strings.TrimSuffix(strings.TrimSuffix(spec.PackageDir, "/hermes"), "/src/calcHermesBatch")),
		"known_findings":                kf,
		"notes":                         notes,
		"outside_claim":                 spec.Outside,
		"sample_query_smt2":             sampleSMT,
	}
	ev := map[string]interface{}{
		"property_id": spec.Property,
		"tier":        tier,
		"seed":        seed,
		"level":       level,
		"coverage":    cov,
		"assumptions": spec.Assumptions,
		"wall_s":      math.Round(wall*100) / 100,
		"violations":  nviol,
	}
	evDir := filepath.Join(verifRoot, "evidence")
	if altOut != "" {
		evDir = filepath.Join(altOut, "evidence")
	}
	os.MkdirAll(evDir, 0755)
	b, _ := json.MarshalIndent(ev, "", " ")
	os.WriteFile(filepath.Join(evDir, spec.Property+".json"), b, 0644)
}

func max1(a int) int {
	if a < 1 {
		return 1
	}
	return a
}

var _ = sym.KBool
