package main

import (
	"crypto/sha256"
	"encoding/json"
	"fmt"
	"math/big"
	"os"
	"os/exec"
	"path/filepath"
	"sort"
	"strconv"
	"strings"
	"sync"
	"time"

	"symgo/lift"
	"symgo/sym"

	"golang.org/x/tools/go/ssa"
)

var liftedSrc = map[string]string{}
var altOut string

const verifRoot = "/verif"

type RunSpec struct {
	Name          string            `json:"name"`
	Harness       string            `json:"harness"`
	Args          [][]int64         `json:"args"` // choices per parameter (cartesian product)
	Tier          string            `json:"tier"` // quick | thorough (quick runs are also part of thorough)
	Mode          string            `json:"mode"`
	TimeoutS      int               `json:"timeout_s"`
	Unwind        int               `json:"unwind"`
	AbortPolicy   map[string]string `json:"abort_policy"` // kind -> check|ignore|obligation:<id>
	SidePolicy    map[string]string `json:"side_policy"`
	Solvers       []string          `json:"solvers"`
	NoCosim       bool              `json:"no_cosim"`
	PruneIf       bool              `json:"prune_branches"`
	ExecBudgetS   int               `json:"exec_budget_s"`
	Shares        bool              `json:"share_abstraction"`
	UFFresh       bool              `json:"uf_fresh"` // exp/pow/... as one fresh variable per application site (over-approximation, pure NRA)
	NoStubs       []string          `json:"no_stubs"` // spec-level stubs that are switched off for this run
	MaxIters      int               `json:"max_iters"`
	Replay        string            `json:"replay"`        // "interpreter": confirm models by concrete re-execution in the executor (harnesses whose stubs have no native counterpart)
	UnwindPolicy  string            `json:"unwind_policy"` // "obligation:<id>": a loop that can exceed the bound is a violation (non-termination)
	ExpectSat     []string          `json:"expect_sat"`    // obligation ids that are informational witnesses
	Informational []string          `json:"informational"`
	TwoRun        string            `json:"two_run"`            // obligation id prefix: run the harness in two-run non-interference mode (sym/tworun.go)
	TwoRunOnly    bool              `json:"two_run_only"`       // keep only the two-run obligations
	ConcIdx       bool              `json:"concretize_indices"` // replace symbolic array indices that can take only one value by that constant (solver-backed)
	MapReverse    bool              `json:"map_reverse"`        // iterate maps with concrete keys in descending key order (order-independence runs)
}

type Spec struct {
	Property      string         `json:"property"`
	PackageDir    string         `json:"package_dir"`
	HarnessDirs   []string       `json:"harness_dirs"`
	Level         string         `json:"level"`
	Regions       []lift.Region  `json:"regions"`
	Stubs         []StubSpec     `json:"stubs"`
	Include       []string       `json:"include"`         // further spec files (other packages) whose runs belong to this property
	IncludeTwoRun []string       `json:"include_two_run"` // quick runs of other properties' specs, executed in two-run mode only
	DecSegs       bool           `json:"dec_segs"`
	LockRules     []sym.LockRule `json:"lock_rules"`
	PruneIf       bool           `json:"prune_branches"`
	MaxSymLen     int            `json:"max_sym_len"`
	Runs          []RunSpec      `json:"runs"`
	Assumptions   []string       `json:"assumptions"`
	Outside       []string       `json:"outside"`
	Trusted       []string       `json:"trusted_base"`
}

// StubSpec replaces a function of the package under test by a symbolic input
// (e.g. a file reader by "returns an arbitrary line count").
type StubSpec struct {
	Func    string `json:"func"`
	Input   string `json:"input"`
	Kind    string `json:"kind"`
	Returns string `json:"returns"` // "input" (default), "zero", "error", "float-by-arg", "bytes-by-arg", "floats", "bool-nil", "call"
	Target  string `json:"target"`  // returns == "call": harness function (same signature) that models the stubbed function and is executed symbolically instead
	Log     bool   `json:"log"`     // record each call as an event that the harness can count (vCalls)
}

type Finding struct {
	Property   string            `json:"property"`
	ID         string            `json:"id"`
	Status     string            `json:"status"` // open | fixed
	Obligation string            `json:"obligation"`
	What       string            `json:"what"`
	Commit     string            `json:"commit,omitempty"`
	Harness    string            `json:"harness,omitempty"`
	Args       []int             `json:"args,omitempty"`
	Values     map[string]string `json:"values,omitempty"`
	Signal     string            `json:"native_signal,omitempty"` // e.g. "timeout": how the witness shows natively
}

type FindingsFile struct {
	Findings []Finding `json:"findings"`
}

type QueryRes struct {
	Instance string            `json:"instance"`
	Kind     string            `json:"kind"`
	ID       string            `json:"id"`
	Expect   string            `json:"expect"`
	Status   string            `json:"status"`
	Solver   string            `json:"solver"`
	Secs     float64           `json:"secs"`
	Where    string            `json:"where,omitempty"`
	Note     string            `json:"note,omitempty"`
	All      map[string]string `json:"all_solvers,omitempty"`
}

type instResult struct {
	name       string
	spec       *RunSpec
	args       []int64
	err        error
	queries    []QueryRes
	blocks     int
	edges      int
	merges     int
	terms      int
	funcs      map[string]string
	stubs      map[string]int
	floatSites map[string]string
	ufs        map[string]int
	inputs     int
	violations []violation
	inconcl    []string
	cosimOK    int
	reached    map[string]bool
	cosimBad   []string
	cosimNotes []string
	warnings   []string
	sampleSMT  string
	execSecs   float64
	solveSecs  float64
}

type violation struct {
	obl    string
	replay string
	known  string
}

var solverSem = make(chan struct{}, 10)
var instSem = make(chan struct{}, 8)

func loadFindings() FindingsFile {
	var ff FindingsFile
	b, err := os.ReadFile(filepath.Join(verifRoot, "known_findings.json"))
	if err == nil {
		_ = json.Unmarshal(b, &ff)
	}
	return ff
}

func mainCheck(a []string) int {
	if len(a) == 0 {
		fmt.Println("usage: symgo check <ID> [--tier quick|thorough] | replay <path>")
		return 2
	}
	if a[0] == "replay" {
		return cmdReplay(a[1:])
	}
	if a[0] == "check" {
		a = a[1:]
	}
	prop := a[0]
	tier := os.Getenv("VERIF_TIER")
	if tier == "" {
		tier = "quick"
	}
	only := ""
	for i := 1; i < len(a); i++ {
		switch a[i] {
		case "--tier":
			tier = a[i+1]
			i++
		case "--only":
			only = a[i+1]
			i++
		case "--replay":
			return cmdReplay(a[i+1:])
		}
	}
	seed := int64(0)
	if s := os.Getenv("VERIF_SEED"); s != "" {
		seed, _ = strconv.ParseInt(s, 10, 64)
	}
	t0 := time.Now()
	b, err := os.ReadFile(filepath.Join(verifRoot, "specs", prop+".json"))
	if err != nil {
		fmt.Println("spec:", err)
		return 3
	}
	var spec Spec
	if err := json.Unmarshal(b, &spec); err != nil {
		fmt.Println("spec parse:", err)
		return 3
	}
	if v := os.Getenv("VERIF_REPO_ROOT"); v != "" {
		// development aid: run the same check against another checkout (seeded copies);
		// evidence and replays go to VERIF_ALT_OUT so that /verif/evidence is only written for /repo
		spec.PackageDir = strings.Replace(spec.PackageDir, "/repo", v, 1)
		altOut = os.Getenv("VERIF_ALT_OUT")
		if altOut == "" {
			altOut = filepath.Join(os.TempDir(), "verif-alt")
		}
	}
	ff := loadFindings()
	known := map[string]bool{}
	for _, f := range ff.Findings {
		if f.Status == "open" {
			known[f.ID] = true
		}
	}
	var hdirs []string
	for _, h := range spec.HarnessDirs {
		hdirs = append(hdirs, filepath.Join(verifRoot, h))
	}
	// A region that cannot be lifted any more (anchor gone, interface changed) makes the check inconclusive, but
	// the harnesses that do not use it are still run: a violation they find is still a violation.
	extra, failedRegions, liftNotes, fatal := liftDegrading(&spec)
	if fatal {
		writeEvidence(&spec, tier, seed, nil, time.Since(t0).Seconds(), 0, liftNotes, nil)
		return 3
	}
	sym.SkipFilesMentioning = failedRegions
	ld, err := sym.Load(spec.PackageDir, hdirs, extra)
	if err != nil {
		fmt.Println("LOAD ERROR:", err)
		writeEvidence(&spec, tier, seed, nil, time.Since(t0).Seconds(), 0, []string{"load error: " + err.Error()}, nil)
		return 3
	}
	loadSecs := time.Since(t0).Seconds()
	fmt.Printf("loaded %s in %.1fs\n", spec.PackageDir, loadSecs)

	// expand instances
	type inst struct {
		spec *RunSpec
		args []int64
	}
	var insts []inst
	for ri := range spec.Runs {
		r := &spec.Runs[ri]
		if r.Tier == "thorough" && tier != "thorough" {
			continue
		}
		if r.Tier == "thorough-only" && tier != "thorough" {
			continue
		}
		if only != "" && !strings.Contains(r.Harness+"/"+r.Name, only) {
			continue
		}
		combos := [][]int64{{}}
		for _, choices := range r.Args {
			var next [][]int64
			for _, c := range combos {
				for _, v := range choices {
					next = append(next, append(append([]int64{}, c...), v))
				}
			}
			combos = next
		}
		for _, c := range combos {
			insts = append(insts, inst{r, c})
		}
	}
	results := make([]*instResult, len(insts))
	var wg sync.WaitGroup
	var ssaMu sync.Mutex
	for i, in := range insts {
		wg.Add(1)
		go func(i int, in inst) {
			defer wg.Done()
			instSem <- struct{}{}
			defer func() { <-instSem }()
			results[i] = runInstance(ld, &spec, in.spec, in.args, known, &ssaMu)
		}(i, in)
	}
	wg.Wait()
	// included specs (harnesses in other packages of the repository)
	for _, inc := range spec.Include {
		sub, err := runIncluded(inc, spec.Property, tier, only, known, false)
		if err != nil {
			fmt.Println("INCLUDE ERROR:", inc, err)
			results = append(results, &instResult{name: "include:" + inc, err: err, spec: &RunSpec{}})
			continue
		}
		results = append(results, sub...)
	}
	for _, inc := range spec.IncludeTwoRun {
		sub, err := runIncluded(inc, spec.Property, tier, only, known, true)
		if err != nil {
			fmt.Println("INCLUDE ERROR:", inc, err)
			results = append(results, &instResult{name: "include:" + inc, err: err, spec: &RunSpec{}})
			continue
		}
		results = append(results, sub...)
	}

	// report
	verdict := 0
	var notes []string
	if len(liftNotes) > 0 {
		notes = append(notes, liftNotes...)
		verdict = 3
	}
	totalQ, discharged := 0, 0
	for _, r := range results {
		fmt.Printf("== %s  exec %.2fs solve %.1fs blocks=%d terms=%d\n", r.name, r.execSecs, r.solveSecs, r.blocks, r.terms)
		if r.err != nil {
			fmt.Printf("   INCONCLUSIVE: %v\n", r.err)
			notes = append(notes, r.name+": "+r.err.Error())
			if verdict == 0 {
				verdict = 3
			}
		}
		for _, q := range r.queries {
			totalQ++
			ok := q.Status == q.Expect
			if ok {
				discharged++
			}
			mark := "ok "
			if !ok {
				mark = "!! "
			}
			if !ok || os.Getenv("VERIF_VERBOSE") != "" {
				fmt.Printf("   %s%-10s %-45s expect=%s got=%s (%s %.2fs) %s %s\n", mark, q.Kind, q.ID, q.Expect, q.Status, q.Solver, q.Secs, q.Where, q.Note)
			}
		}
		for _, m := range r.warnings {
			fmt.Printf("   warning: %s\n", m)
			notes = append(notes, r.name+": warning: "+m)
		}
		for _, m := range r.inconcl {
			fmt.Printf("   INCONCLUSIVE: %s\n", m)
			notes = append(notes, r.name+": "+m)
			if verdict == 0 {
				verdict = 3
			}
		}
		for _, m := range r.cosimBad {
			fmt.Printf("   COSIM MISMATCH: %s\n", m)
			notes = append(notes, r.name+": cosim mismatch "+m)
			if verdict == 0 {
				verdict = 3
			}
		}
	}
	// vacuity per obligation id over all instances of this check
	reachAll := map[string]bool{}
	for _, r := range results {
		for id, ok := range r.reached {
			reachAll[id] = reachAll[id] || ok
		}
	}
	for id, ok := range reachAll {
		if !ok {
			fmt.Printf("   INCONCLUSIVE: VACUOUS obligation %s: no site reachable in any instance\n", id)
			notes = append(notes, "vacuous obligation "+id)
			if verdict == 0 {
				verdict = 3
			}
		}
	}
	// violations
	nviol := 0
	seenKnown := map[string]bool{}
	for _, r := range results {
		for _, v := range r.violations {
			if v.known != "" {
				seenKnown[v.known] = true
				continue
			}
			nviol++
			fmt.Printf("VIOLATION property=%s replay=%s obligation=%s instance=%s\n", spec.Property, v.replay, v.obl, r.name)
			verdict = 1
		}
	}
	// known findings: replay stored witnesses
	for _, f := range ff.Findings {
		if f.Property != spec.Property || f.Status != "open" {
			continue
		}
		if f.Harness != "" {
			fails, _, out, err := nativeReplay(&spec, f.Harness, f.Args, f.Values, nil)
			if err == nil && (contains(fails, f.Obligation) || (f.Signal != "" && contains(fails, f.Signal))) {
				fmt.Printf("KNOWN-FINDING: property=%s %s: %s\n", f.Property, f.ID, f.What)
			} else {
				fmt.Printf("STALE known finding %s: stored witness no longer fails (%v) %s\n", f.ID, err, tail(out, 300))
				notes = append(notes, "stale known finding "+f.ID)
				if verdict == 0 {
					verdict = 3
				}
			}
		} else {
			fmt.Printf("KNOWN-FINDING: property=%s %s: %s\n", f.Property, f.ID, f.What)
		}
	}
	if totalQ == 0 && verdict == 0 {
		fmt.Println("   INCONCLUSIVE: no query was generated")
		notes = append(notes, "no query was generated")
		verdict = 3
	}
	wall := time.Since(t0).Seconds()
	writeEvidence(&spec, tier, seed, results, wall, nviol, notes, ff.Findings)
	switch verdict {
	case 0:
		fmt.Printf("RESULT property=%s tier=%s PASS queries=%d discharged=%d wall=%.1fs\n", spec.Property, tier, totalQ, discharged, wall)
	case 1:
		fmt.Printf("RESULT property=%s tier=%s VIOLATION wall=%.1fs\n", spec.Property, tier, wall)
	default:
		fmt.Printf("RESULT property=%s tier=%s INCONCLUSIVE wall=%.1fs\n", spec.Property, tier, wall)
	}
	return verdict
}

// liftDegrading lifts the spec's regions; a region that cannot be lifted is dropped (and reported) and the rest is
// lifted again. fatal: the error could not be attributed to a region.
func liftDegrading(spec *Spec) (extra map[string][]byte, failedRegions []string, notes []string, fatal bool) {
	extra, lerr := liftRegions(spec)
	for lerr != nil {
		fmt.Println("LIFT ERROR (anchor not found or region not liftable):", lerr)
		notes = append(notes, "lift error: "+lerr.Error())
		bad := ""
		for _, r := range spec.Regions {
			if strings.Contains(lerr.Error(), "region "+r.Name+":") {
				bad = r.Name
			}
		}
		if bad == "" {
			return nil, failedRegions, notes, true
		}
		failedRegions = append(failedRegions, bad)
		var keep []lift.Region
		for _, r := range spec.Regions {
			if r.Name != bad {
				keep = append(keep, r)
			}
		}
		spec.Regions = keep
		extra, lerr = liftRegions(spec)
	}
	return extra, failedRegions, notes, false
}

// runIncluded loads another spec file and runs its instances as part of property `prop`.
func runIncluded(name, prop, tier, only string, known map[string]bool, twoRun bool) ([]*instResult, error) {
	b, err := os.ReadFile(filepath.Join(verifRoot, "specs", name+".json"))
	if err != nil {
		return nil, err
	}
	spec := new(Spec)
	if err := json.Unmarshal(b, spec); err != nil {
		return nil, err
	}
	spec.Property = prop + "." + name // keeps lifted sources apart; replays are stored under the parent by storeReplay's caller
	if v := os.Getenv("VERIF_REPO_ROOT"); v != "" {
		spec.PackageDir = strings.Replace(spec.PackageDir, "/repo", v, 1)
	}
	var hdirs []string
	for _, h := range spec.HarnessDirs {
		hdirs = append(hdirs, filepath.Join(verifRoot, h))
	}
	extra, failed, lnotes, fatal := liftDegrading(spec)
	if fatal {
		return nil, fmt.Errorf("lift: %v", lnotes)
	}
	prevSkip := sym.SkipFilesMentioning
	sym.SkipFilesMentioning = failed
	defer func() { sym.SkipFilesMentioning = prevSkip }()
	ld, err := sym.Load(spec.PackageDir, hdirs, extra)
	if err != nil {
		return nil, err
	}
	var liftErrRes []*instResult
	for _, n := range lnotes {
		liftErrRes = append(liftErrRes, &instResult{name: "include:" + name, err: fmt.Errorf("%s", n), spec: &RunSpec{}})
	}
	type job struct {
		r *RunSpec
		c []int64
	}
	var jobs []job
	var ssaMu sync.Mutex
	for ri := range spec.Runs {
		r := &spec.Runs[ri]
		if r.Tier == "thorough" && tier != "thorough" {
			continue
		}
		if only != "" && !strings.Contains(r.Harness+"/"+r.Name, only) {
			continue
		}
		if twoRun {
			if r.Tier == "thorough" || r.Mode == "B" {
				continue
			}
			r.TwoRun, r.TwoRunOnly, r.Replay, r.NoCosim = prop+".two_run", true, "interpreter", true
			r.Name = name + "/" + r.Name
			r.ExpectSat, r.Informational = nil, nil
		}
		combos := [][]int64{{}}
		for _, choices := range r.Args {
			var next [][]int64
			for _, c := range combos {
				for _, v := range choices {
					next = append(next, append(append([]int64{}, c...), v))
				}
			}
			combos = next
		}
		for _, c := range combos {
			jobs = append(jobs, job{r, c})
		}
	}
	out := make([]*instResult, len(jobs))
	var wg sync.WaitGroup
	for i := range jobs {
		wg.Add(1)
		go func(i int) {
			defer wg.Done()
			instSem <- struct{}{}
			defer func() { <-instSem }()
			out[i] = runInstance(ld, spec, jobs[i].r, jobs[i].c, known, &ssaMu)
		}(i)
	}
	wg.Wait()
	return append(out, liftErrRes...), nil
}

func liftRegions(spec *Spec) (map[string][]byte, error) {
	if len(spec.Regions) == 0 {
		return nil, nil
	}
	env := append(os.Environ(), "GOWORK=off", "GOFLAGS=-mod=mod", "GOPROXY=off", "GOSUMDB=off", "GOTOOLCHAIN=local")
	r, err := lift.Generate(spec.PackageDir, env, spec.Regions)
	if err != nil {
		return nil, err
	}
	liftedSrc[spec.Property] = r.Source
	if f := os.Getenv("VERIF_AUTOALT"); f != "" {
		// maintenance: write the current parameter order and neighbour anchors of every region
		b, _ := json.MarshalIndent(r.Auto, "", " ")
		os.WriteFile(f, b, 0644)
	}
	if d := os.Getenv("VERIF_DUMP"); d != "" {
		os.MkdirAll(d, 0755)
		os.WriteFile(filepath.Join(d, "lifted_"+spec.Property+".go"), []byte(r.Source), 0644)
	}
	return map[string][]byte{"zz_verif_lifted.go": []byte(r.Source)}, nil
}

func contains(l []string, s string) bool {
	for _, x := range l {
		if x == s {
			return true
		}
	}
	return false
}

func tail(s string, n int) string {
	if len(s) > n {
		return s[len(s)-n:]
	}
	return s
}

type pendingQ struct {
	kind, id, site, expect, where string
	assert                        *sym.Term
	oblIDs                        []string
}

func runInstance(ld *sym.Loaded, spec *Spec, rs *RunSpec, args []int64, known map[string]bool, ssaMu *sync.Mutex) *instResult {
	var as []string
	for _, a := range args {
		as = append(as, strconv.FormatInt(a, 10))
	}
	res := &instResult{name: fmt.Sprintf("%s(%s)", rs.Harness, strings.Join(as, ",")), spec: rs, args: args}
	if rs.Name != "" {
		res.name = rs.Name + ":" + res.name
	}
	mode := rs.Mode
	if mode == "" {
		mode = "R"
	}
	e := sym.NewExec(ld.Prog, ld.Pkg, mode)
	e.Known = known
	e.S.ShareOn = rs.Shares
	e.UFFresh = rs.UFFresh
	e.TwoRun, e.TwoRunOnly = rs.TwoRun, rs.TwoRunOnly
	e.DecSegs = spec.DecSegs
	e.LockRules = spec.LockRules
	e.PruneIf = spec.PruneIf || rs.PruneIf
	budget := 300
	if rs.ExecBudgetS > 0 {
		budget = rs.ExecBudgetS
	}
	e.Deadline = time.Now().Add(time.Duration(budget) * time.Second)
	if spec.MaxSymLen > 0 {
		e.MaxSymLen = spec.MaxSymLen
	}
	installStubs(e, spec, rs.NoStubs)
	e.MapReverse = rs.MapReverse
	e.ConcIdx = rs.ConcIdx
	if rs.Unwind > 0 {
		e.Unwind = rs.Unwind
	}
	if rs.MaxIters > 0 {
		e.MaxIters = rs.MaxIters
	}
	t0 := time.Now()
	// go/ssa lazily builds some functions; serialise execution start
	ssaMu.Lock()
	err := func() (err error) {
		defer func() {
			if r := recover(); r != nil {
				if u, ok := r.(*sym.UnsupportedErr); ok {
					err = u
					return
				}
				panic(r)
			}
		}()
		return e.RunHarness(rs.Harness, args)
	}()
	ssaMu.Unlock()
	res.execSecs = time.Since(t0).Seconds()
	res.blocks, res.edges, res.merges, res.terms = e.BlocksExec, e.EdgesExec, e.Merges, e.S.NumTerms()
	res.funcs, res.stubs, res.floatSites, res.ufs, res.inputs = e.FuncsSeen, e.Stubs, e.FloatSites, e.UFUsed, len(e.Inputs)
	if err == nil && e.InitIncomplete != "" {
		err = &sym.UnsupportedErr{Msg: "package initialiser not executed completely: " + e.InitIncomplete}
	}
	if err != nil {
		res.err = err
		return res
	}
	S := e.S
	var qs []pendingQ
	// one query per obligation site (disjunctions of nonlinear cases are much
	// harder for the solvers than the cases one by one)
	siteCount := map[string]int{}
	for _, o := range e.Obls {
		siteCount[o.ID]++
	}
	siteIdx := map[string]int{}
	for _, o := range e.Obls {
		expect := "unsat"
		if contains(rs.ExpectSat, o.ID) {
			expect = "sat"
		}
		site := ""
		if siteCount[o.ID] > 1 {
			site = fmt.Sprintf("#%d", siteIdx[o.ID])
			siteIdx[o.ID]++
		}
		qs = append(qs, pendingQ{kind: "obligation", id: o.ID, site: site, expect: expect, where: o.Where, assert: S.And(o.Guard, S.Not(o.Cond))})
		qs = append(qs, pendingQ{kind: "reach", id: o.ID, site: site, expect: "sat", where: o.Where, assert: o.Guard})
	}
	covers := map[string][]*sym.Term{}
	var corder []string
	for _, c := range e.Covers {
		if _, ok := covers[c.ID]; !ok {
			corder = append(corder, c.ID)
		}
		covers[c.ID] = append(covers[c.ID], c.Guard)
	}
	for _, id := range corder {
		qs = append(qs, pendingQ{kind: "cover", id: id, expect: "sat", assert: S.Or(covers[id]...)})
	}
	// side obligations grouped by kind
	sides := map[string][]*sym.Term{}
	sideWhere := map[string]string{}
	for _, so := range e.Sides {
		pol := rs.SidePolicy[so.Kind]
		if pol == "ignore" {
			continue
		}
		k := so.Kind
		sides[k] = append(sides[k], S.And(so.Guard, S.Not(so.Cond)))
		if !strings.Contains(sideWhere[k], so.Where) && len(sideWhere[k]) < 200 {
			sideWhere[k] += so.Where + " "
		}
	}
	for _, k := range sortedKeys(sides) {
		qs = append(qs, pendingQ{kind: "side", id: k, expect: "unsat", where: sideWhere[k], assert: S.Or(sides[k]...)})
	}
	aborts := map[string][]*sym.Term{}
	abortWhere := map[string]string{}
	for _, ab := range e.Aborts {
		pol := rs.AbortPolicy[ab.Kind]
		if pol == "ignore" {
			continue
		}
		aborts[ab.Kind] = append(aborts[ab.Kind], ab.Guard)
		if !strings.Contains(abortWhere[ab.Kind], ab.Where) && len(abortWhere[ab.Kind]) < 200 {
			abortWhere[ab.Kind] += ab.Where + " "
		}
	}
	for _, k := range sortedKeys(aborts) {
		qs = append(qs, pendingQ{kind: "abort", id: k, expect: "unsat", where: abortWhere[k], assert: S.Or(aborts[k]...)})
	}
	for i, u := range e.Unwinds {
		qs = append(qs, pendingQ{kind: "unwind", id: fmt.Sprintf("unwind%d", i), expect: "unsat", where: u.Where, assert: u.Guard})
	}
	var inputs []*sym.Term
	for _, in := range e.Inputs {
		inputs = append(inputs, in.Term)
	}
	timeout := time.Duration(rs.TimeoutS) * time.Second
	if rs.TimeoutS == 0 {
		timeout = 60 * time.Second
	}
	solvers := rs.Solvers
	if len(solvers) == 0 {
		solvers = []string{"z3", "cvc5n"}
	}
	t1 := time.Now()
	out := make([]QueryRes, len(qs))
	srs := make([]sym.SolveResult, len(qs))
	smts := make([]string, len(qs))
	for i, q := range qs {
		smts[i] = e.BuildSMT([]*sym.Term{q.assert}, inputs)
	}
	if len(smts) > 0 {
		res.sampleSMT = smts[0]
	}
	var wg sync.WaitGroup
	for i := range qs {
		wg.Add(1)
		go func(i int) {
			defer wg.Done()
			solverSem <- struct{}{}
			defer func() { <-solverSem }()
			q := qs[i]
			if q.assert.IsFalse() {
				srs[i] = sym.SolveResult{Status: "unsat", Solver: "simplifier"}
			} else {
				srs[i] = sym.RunPortfolio(smts[i], timeout, solvers)
			}
			out[i] = QueryRes{Instance: res.name, Kind: q.kind, ID: q.id + q.site, Expect: q.expect, Status: srs[i].Status, Solver: srs[i].Solver, Secs: srs[i].Secs, Where: q.where, All: srs[i].All}
			if srs[i].Status == "error" {
				out[i].Note = firstLine(srs[i].Raw)
			}
		}(i)
	}
	wg.Wait()
	res.solveSecs = time.Since(t1).Seconds()
	res.queries = out
	if d := os.Getenv("VERIF_DUMP"); d != "" {
		os.MkdirAll(d, 0755)
		for i, q := range qs {
			os.WriteFile(filepath.Join(d, sanitize(res.name+"__"+q.kind+"__"+q.id)+".smt2"), []byte(smts[i]), 0644)
		}
	}
	// triage
	reachedID := map[string]bool{}
	var cosimModels []map[string]string
	for i, q := range qs {
		r := srs[i]
		switch q.kind {
		case "obligation":
			if q.expect == "sat" {
				if r.Status != "sat" {
					res.inconcl = append(res.inconcl, fmt.Sprintf("witness obligation %s expected sat, got %s", q.id, r.Status))
				}
				continue
			}
			switch r.Status {
			case "unsat":
			case "sat":
				vals := modelValues(e, r.Values)
				if rs.Replay == "interpreter" {
					fails := interpReplay(ld, spec, rs, args, vals, known)
					if contains(fails, q.id) {
						p := storeReplay(spec.Property, q.id, rs.Harness, toInts(args), vals, knownList(known))
						res.violations = append(res.violations, violation{obl: q.id, replay: p})
					} else {
						res.inconcl = append(res.inconcl, fmt.Sprintf("UNCONFIRMED %s: model does not reproduce in the concrete interpreter run (fails=%v)", q.id, fails))
					}
					continue
				}
				fails, assumeBad, outp, err := nativeReplay(spec, rs.Harness, toInts(args), vals, knownList(known))
				if err != nil {
					res.inconcl = append(res.inconcl, fmt.Sprintf("UNCONFIRMED %s: replay failed: %v %s", q.id, err, tail(outp, 400)))
				} else if contains(fails, q.id) {
					if contains(rs.Informational, q.id) {
						out[i].Note = "informational: fails (replay-confirmed), not part of the claim"
						out[i].Expect = "sat"
						continue
					}
					p := storeReplay(spec.Property, q.id, rs.Harness, toInts(args), vals, knownList(known))
					res.violations = append(res.violations, violation{obl: q.id, replay: p})
				} else {
					res.inconcl = append(res.inconcl, fmt.Sprintf("UNCONFIRMED %s: solver model does not reproduce natively (fails=%v assumeFailed=%v)", q.id, fails, assumeBad))
					if os.Getenv("VERIF_KEEP") != "" {
						storeReplay(spec.Property, "unconfirmed-"+q.id, rs.Harness, toInts(args), vals, knownList(known))
					}
				}
			default:
				res.inconcl = append(res.inconcl, fmt.Sprintf("obligation %s: solver %s (%v) within %v", q.id, r.Status, r.All, timeout))
			}
		case "reach":
			// vacuity is judged per obligation id: at least one site must be reachable
			if r.Status == "sat" {
				reachedID[q.id] = true
				if len(cosimModels) < 3 && len(r.Values) > 0 {
					cosimModels = append(cosimModels, modelValues(e, r.Values))
				}
			} else if r.Status == "unsat" {
				out[i].Expect = "unsat"
				out[i].Note = "site unreachable in this instance"
				if _, ok := reachedID[q.id]; !ok {
					reachedID[q.id] = false
				}
			} else {
				// reachability twin undecided: the obligation's own verdict stands; noted, not fatal
				out[i].Expect = r.Status
				out[i].Note = "reachability twin undecided"
				res.warnings = append(res.warnings, fmt.Sprintf("%s %s: solver %s (vacuity not confirmed for this site)", q.kind, q.id, r.Status))
			}
		case "cover":
			if r.Status == "unsat" {
				res.inconcl = append(res.inconcl, fmt.Sprintf("VACUOUS %s %s: never reached", q.kind, q.id))
			} else if r.Status != "sat" {
				// a coverage witness the solver could not decide is a warning: only a PROVED
				// unreachable witness (unsat) shows a vacuous harness
				out[i].Expect = r.Status
				out[i].Note = "coverage witness undecided"
				res.warnings = append(res.warnings, fmt.Sprintf("%s %s: solver %s", q.kind, q.id, r.Status))
			} else if len(cosimModels) < 3 {
				cosimModels = append(cosimModels, modelValues(e, r.Values))
			}
		case "side", "abort", "unwind":
			pol := ""
			if q.kind == "side" {
				pol = rs.SidePolicy[q.id]
			} else if q.kind == "abort" {
				pol = rs.AbortPolicy[q.id]
			} else if q.kind == "unwind" {
				pol = rs.UnwindPolicy
			}
			if r.Status == "unsat" {
				continue
			}
			if r.Status == "sat" && strings.HasPrefix(pol, "obligation:") && q.kind == "unwind" {
				// the loop can run beyond the bound: confirm natively that it does not finish in time
				oid := strings.TrimPrefix(pol, "obligation:")
				vals := modelValues(e, r.Values)
				fails, _, _, rerr := nativeReplay(spec, rs.Harness, toInts(args), vals, knownList(known))
				if rerr == nil && contains(fails, "timeout") {
					if kid := knownWitness(spec.Property, oid, rs.Harness, toInts(args)); kid != "" {
						res.violations = append(res.violations, violation{obl: oid, replay: "", known: kid})
					} else {
						p := storeReplay(spec.Property, oid, rs.Harness, toInts(args), vals, knownList(known))
						res.violations = append(res.violations, violation{obl: oid, replay: p})
					}
				} else {
					res.inconcl = append(res.inconcl, fmt.Sprintf("UNCONFIRMED %s: the model runs to completion natively (fails=%v)", oid, fails))
				}
				continue
			}
			if r.Status == "sat" && q.kind == "side" && (q.id == "fdivzero" || q.id == "math-domain") && pol == "" {
				// a division by zero / a function outside its domain is reachable in exact arithmetic: that is where
				// the real code produces Inf or NaN. If a value the harness observes is not finite when the model
				// is run natively, the "state stays finite" clause is violated (confirmed); otherwise inconclusive
				vals := modelValues(e, r.Values)
				fails, _, _, rerr := nativeReplay(spec, rs.Harness, toInts(args), vals, knownList(known))
				nf := ""
				for _, f := range fails {
					if strings.HasPrefix(f, "nonfinite:") {
						nf = strings.TrimPrefix(f, "nonfinite:")
						break
					}
				}
				if rerr == nil && nf != "" {
					oid := spec.Property + ".state_stays_finite." + nf
					p := storeReplay(spec.Property, oid, rs.Harness, toInts(args), vals, knownList(known))
					res.violations = append(res.violations, violation{obl: oid, replay: p})
					continue
				}
			}
			if r.Status == "sat" && strings.HasPrefix(pol, "obligation:") {
				oid := strings.TrimPrefix(pol, "obligation:")
				vals := modelValues(e, r.Values)
				p := storeReplay(spec.Property, oid, rs.Harness, toInts(args), vals, knownList(known))
				res.violations = append(res.violations, violation{obl: oid, replay: p})
				continue
			}
			if r.Status == "sat" && pol == "expect" {
				out[i].Expect = "sat"
				continue
			}
			res.inconcl = append(res.inconcl, fmt.Sprintf("%s %s at %s: solver says %s (must be unsat)", q.kind, q.id, q.where, r.Status))
			if r.Status == "sat" && os.Getenv("VERIF_VERBOSE") != "" {
				vals := modelValues(e, r.Values)
				fmt.Printf("      model for %s %s: %v\n", q.kind, q.id, vals)
			}
		}
	}
	res.reached = reachedID
	// co-simulation: evaluate observations under a model and compare with native
	if !rs.NoCosim && mode == "R" && len(e.Observes) > 0 {
		// translator validation on up to three solver models; a single disagreement next to an
		// agreeing model is a rounding knife-edge (exact rationals vs float64 at a branch), all
		// models disagreeing is treated as an encoder problem
		var bad []string
		okBefore := res.cosimOK
		tried := 0
		for _, m := range cosimModels {
			before := len(res.cosimBad)
			cosim(e, spec, rs, args, m, res, known)
			tried++
			if len(res.cosimBad) > before {
				bad = append(bad, res.cosimBad[before:]...)
				res.cosimBad = res.cosimBad[:before]
			}
		}
		if len(bad) > 0 && res.cosimOK == okBefore && tried > 0 {
			res.cosimBad = bad
		} else if len(bad) > 0 {
			res.cosimNotes = append(res.cosimNotes, bad...)
		}
	}
	return res
}

// knownWitness: id of an open known finding recorded for exactly this harness instance.
func knownWitness(prop, obl, harness string, args []int) string {
	for _, f := range loadFindings().Findings {
		if f.Property != prop || f.Status != "open" || f.Obligation != obl || f.Harness != harness || len(f.Args) != len(args) {
			continue
		}
		same := true
		for i := range args {
			if f.Args[i] != args[i] {
				same = false
			}
		}
		if same {
			return f.ID
		}
	}
	return ""
}

func installStubs(e *sym.Exec, spec *Spec, off []string) {
	if len(spec.Stubs) > 0 {
		stubsCopy := spec.Stubs
		e.SetUserStub(func(ex *sym.Exec, st *sym.State, fn *ssa.Function, args []sym.Val, where string) (sym.Val, bool) {
			for _, sp := range stubsCopy {
				if contains(off, sp.Func) {
					continue
				}
				if (fn.Name() == sp.Func && (fn.Pkg == ex.Pkg || fn.Pkg == nil)) || (strings.Contains(sp.Func, ".") && fn.String() == sp.Func) {
					if sp.Log {
						ex.LogCall(st, fn, args)
					}
					if sp.Returns == "zero" {
						return ex.ZeroResults(fn), true
					}
					if sp.Returns == "call" {
						tf := ex.Pkg.Func(sp.Target)
						if tf == nil {
							panic(&sym.UnsupportedErr{Msg: "stub target " + sp.Target + " not found"})
						}
						return ex.CallFunction(st, tf, args, nil, where), true
					}
					if sp.Returns == "error" {
						return ex.NondetError(sp.Input), true
					}
					if sp.Returns == "float-by-arg" {
						// a parsed number: one symbolic value per distinct (concrete) text argument
						return ex.FloatByArg(sp.Input, args[0]), true
					}
					if sp.Returns == "bytes-by-arg" {
						// file content: a one-byte slice whose byte is a symbol named after the (concrete) path, nil error
						return ex.BytesByArg(st, sp.Input, args[0]), true
					}
					if sp.Returns == "floats" {
						// every result is a fresh symbolic float named <input>_<k>
						return ex.FreshFloatResults(sp.Input, fn), true
					}
					if sp.Returns == "bool-nil" {
						// (nondeterministic bool, nil error), a fresh bool per call
						return ex.BoolNilPerCall(sp.Input), true
					}
					return ex.Input(sp.Input, "int", fn.Signature.Results().At(0).Type()), true
				}
			}
			return nil, false
		})
	}
}

// interpReplay re-executes the harness in the executor with all inputs concrete (the executor then
// is an interpreter of the same SSA with the same stubs) and returns the obligations that fail.
func interpReplay(ld *sym.Loaded, spec *Spec, rs *RunSpec, args []int64, vals map[string]string, known map[string]bool) (fails []string) {
	mode := rs.Mode
	if mode == "" {
		mode = "R"
	}
	e := sym.NewExec(ld.Prog, ld.Pkg, mode)
	e.Known = known
	e.DecSegs = spec.DecSegs
	e.Concrete = vals
	e.TwoRun, e.TwoRunOnly = rs.TwoRun, rs.TwoRunOnly
	e.MapReverse = rs.MapReverse
	e.ConcIdx = rs.ConcIdx
	if rs.Unwind > 0 {
		e.Unwind = rs.Unwind
	}
	installStubs(e, spec, rs.NoStubs)
	func() {
		defer func() {
			if r := recover(); r != nil {
				fails = append(fails, fmt.Sprintf("interpreter error: %v", r))
			}
		}()
		if err := e.RunHarness(rs.Harness, args); err != nil {
			fails = append(fails, "interpreter error: "+err.Error())
		}
	}()
	for _, o := range e.Obls {
		if o.Guard.IsTrue() && o.Cond.IsFalse() {
			fails = append(fails, o.ID)
		}
	}
	return fails
}

func knownList(k map[string]bool) []string {
	var l []string
	for id := range k {
		l = append(l, id)
	}
	sort.Strings(l)
	return l
}

func firstLine(s string) string {
	for _, l := range strings.Split(s, "\n") {
		if strings.Contains(l, "error") {
			return l
		}
	}
	return ""
}

func sanitize(s string) string {
	r := strings.NewReplacer("/", "_", "(", "_", ")", "_", ",", "-", ":", "_", " ", "_")
	return r.Replace(s)
}

func sortedKeys(m map[string][]*sym.Term) []string {
	var ks []string
	for k := range m {
		ks = append(ks, k)
	}
	sort.Strings(ks)
	return ks
}

func toInts(a []int64) []int {
	out := make([]int, len(a))
	for i, v := range a {
		out[i] = int(v)
	}
	return out
}

// modelValues converts solver values of the inputs to replay strings
// (floats rounded to the nearest float64).
func modelValues(e *sym.Exec, vals []string) map[string]string {
	out := map[string]string{}
	for i, in := range e.Inputs {
		if i >= len(vals) {
			break
		}
		v := vals[i]
		switch in.Kind {
		case "bool":
			out[in.Name] = v
		case "int", "byte":
			if strings.HasPrefix(v, "#x") {
				bi, _ := new(big.Int).SetString(v[2:], 16)
				if in.Kind == "int" && bi.Bit(63) == 1 {
					bi.Sub(bi, new(big.Int).Lsh(big.NewInt(1), 64))
				}
				out[in.Name] = bi.String()
				continue
			}
			r, _, err := sym.EvalNum(v)
			if err != nil {
				out[in.Name] = "0"
				continue
			}
			out[in.Name] = r.Num().String()
		case "float":
			if f, ok := sym.ParseFPValue(v); ok {
				out[in.Name] = strconv.FormatFloat(f, 'g', -1, 64)
				continue
			}
			r, _, err := sym.EvalNum(v)
			if err != nil {
				out[in.Name] = "0"
				continue
			}
			f, _ := r.Float64()
			out[in.Name] = strconv.FormatFloat(f, 'g', -1, 64)
		}
	}
	return out
}

// ---- native replay

const replayTest = `package %s

import (
	"fmt"
	"testing"
)

func TestZZVerifReplay(t *testing.T) {
	vLoad()
	f, ok := vHarnesses[vReplay.Harness]
	if !ok {
		t.Fatalf("unknown harness %%s", vReplay.Harness)
	}
	func() {
		defer func() {
			if r := recover(); r != nil {
				fmt.Println("VERIF-PANIC", r)
			}
		}()
		f(vReplay.Args)
	}()
	for _, o := range vObs {
		fmt.Println("VERIF-OBS", o)
	}
	fmt.Println("VERIF-DONE")
}
`

func pkgNameOf(dir string) string {
	files, _ := filepath.Glob(filepath.Join(dir, "*.go"))
	for _, f := range files {
		b, err := os.ReadFile(f)
		if err != nil {
			continue
		}
		for _, l := range strings.Split(string(b), "\n") {
			if strings.HasPrefix(l, "package ") {
				return strings.TrimSpace(strings.TrimPrefix(l, "package "))
			}
		}
	}
	return "main"
}

// nativeReplay runs the harness natively on the given values.
func nativeReplay(spec *Spec, harness string, args []int, vals map[string]string, known []string) (fails []string, assumeBad bool, out string, err error) {
	tmp, err := os.MkdirTemp("", "verif-replay-")
	if err != nil {
		return nil, false, "", err
	}
	defer os.RemoveAll(tmp)
	rp := filepath.Join(tmp, "replay.json")
	rj, _ := json.Marshal(map[string]interface{}{"harness": harness, "args": args, "values": vals, "known": known})
	os.WriteFile(rp, rj, 0644)
	return nativeReplayFile(spec, rp, tmp)
}

func nativeReplayFile(spec *Spec, replayPath, tmp string) (fails []string, assumeBad bool, out string, err error) {
	overlay := map[string]string{}
	pkgName := sym.PkgNameOf(spec.PackageDir)
	for _, hd := range spec.HarnessDirs {
		files, _ := filepath.Glob(filepath.Join(verifRoot, hd, "*.go"))
		for _, f := range files {
			b, err := os.ReadFile(f)
			if err != nil {
				continue
			}
			skip := false
			for _, name := range sym.SkipFilesMentioning {
				if strings.Contains(string(b), name+"(") {
					skip = true
				}
			}
			if skip {
				continue
			}
			cp := filepath.Join(tmp, "h_"+sanitize(hd)+"_"+filepath.Base(f))
			os.WriteFile(cp, sym.RewritePackage(b, pkgName), 0644)
			overlay[filepath.Join(spec.PackageDir, "zz_verif_"+filepath.Base(f))] = cp
		}
	}
	if len(spec.Regions) > 0 {
		if liftedSrc[spec.Property] == "" {
			if _, err := liftRegions(spec); err != nil {
				return nil, false, "", err
			}
		}
		lf := filepath.Join(tmp, "zz_verif_lifted.go")
		os.WriteFile(lf, []byte(liftedSrc[spec.Property]), 0644)
		overlay[filepath.Join(spec.PackageDir, "zz_verif_lifted.go")] = lf
	}
	tf := filepath.Join(tmp, "zz_verif_replay_test.go")
	os.WriteFile(tf, []byte(fmt.Sprintf(replayTest, pkgName)), 0644)
	overlay[filepath.Join(spec.PackageDir, "zz_verif_replay_test.go")] = tf
	oj, _ := json.Marshal(map[string]interface{}{"Replace": overlay})
	op := filepath.Join(tmp, "overlay.json")
	os.WriteFile(op, oj, 0644)
	cmd := exec.Command("go", "test", "-vet=off", "-count=1", "-timeout", "25s", "-overlay", op, "-run", "^TestZZVerifReplay$", "-v", ".")
	cmd.Dir = spec.PackageDir
	cmd.Env = append(os.Environ(), "GOWORK=off", "GOFLAGS=-mod=mod", "GOPROXY=off", "GOSUMDB=off", "GOTOOLCHAIN=local", "VERIF_REPLAY="+replayPath)
	b, rerr := cmd.CombinedOutput()
	out = string(b)
	done := false
	for _, l := range strings.Split(out, "\n") {
		l = strings.TrimSpace(l)
		switch {
		case strings.HasPrefix(l, "VERIF-FAIL "):
			// an assertion counts only if no assumption failed before it (its path condition)
			if !assumeBad {
				fails = append(fails, strings.TrimPrefix(l, "VERIF-FAIL "))
			}
		case l == "VERIF-ASSUME-FAILED":
			assumeBad = true
		case l == "VERIF-DONE":
			done = true
		case strings.HasPrefix(l, "VERIF-PANIC"):
			fails = append(fails, "panic")
		}
	}
	if !done && strings.Contains(out, "test timed out") {
		fails = append(fails, "timeout")
		return fails, assumeBad, out, nil
	}
	if !done {
		if strings.Contains(out, "[build failed]") || strings.Contains(out, "cannot find") {
			return fails, assumeBad, out, fmt.Errorf("replay build failed: %v", rerr)
		}
		// process died (log.Fatal / os.Exit): report as abort
		fails = append(fails, "fatal")
	}
	return fails, assumeBad, out, nil
}

func storeReplay(prop, obl, harness string, args []int, vals map[string]string, known []string) string {
	rj, _ := json.MarshalIndent(map[string]interface{}{"property": prop, "obligation": obl, "harness": harness, "args": args, "values": vals, "known": known}, "", " ")
	h := fmt.Sprintf("%x", sha256.Sum256(rj))[:10]
	dir := filepath.Join(verifRoot, "replays", prop, sanitize(obl)+"-"+h)
	if altOut != "" {
		dir = filepath.Join(altOut, "replays", prop, sanitize(obl)+"-"+h)
	}
	os.MkdirAll(dir, 0755)
	os.WriteFile(filepath.Join(dir, "replay.json"), rj, 0644)
	return dir
}

func cmdReplay(a []string) int {
	if len(a) == 0 {
		fmt.Println("usage: symgo replay <dir>")
		return 2
	}
	p := a[0]
	b, err := os.ReadFile(filepath.Join(p, "replay.json"))
	if err != nil {
		fmt.Println(err)
		return 2
	}
	var rf struct {
		Property   string `json:"property"`
		Obligation string `json:"obligation"`
	}
	json.Unmarshal(b, &rf)
	sb, err := os.ReadFile(filepath.Join(verifRoot, "specs", rf.Property+".json"))
	if err != nil {
		fmt.Println(err)
		return 2
	}
	var spec Spec
	json.Unmarshal(sb, &spec)
	if v := os.Getenv("VERIF_REPO_ROOT"); v != "" {
		spec.PackageDir = strings.Replace(spec.PackageDir, "/repo", v, 1)
	}
	tmp, _ := os.MkdirTemp("", "verif-replay-")
	defer os.RemoveAll(tmp)
	fails, assumeBad, out, err := nativeReplayFile(&spec, filepath.Join(p, "replay.json"), tmp)
	fmt.Println(out)
	if err != nil {
		fmt.Println("replay error:", err)
		return 3
	}
	if contains(fails, rf.Obligation) {
		fmt.Printf("REPRODUCED property=%s obligation=%s\n", rf.Property, rf.Obligation)
		return 1
	}
	fmt.Printf("NOT REPRODUCED (fails=%v assumeFailed=%v)\n", fails, assumeBad)
	return 0
}
