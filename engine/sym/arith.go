package sym

import (
	"fmt"
	"go/token"
	"go/types"
	"math"
	"math/big"
)

// Arith is the mode-specific encoding of Go scalars.
type Arith interface {
	Name() string
	IntSort(t types.Type) Sort
	FloatSort() Sort
	IntConst(v *big.Int, t types.Type) *Term
	FloatConst(f float64) *Term
	IntBin(e *Exec, st *State, op token.Token, a, b *Term, t types.Type, where string) *Term
	IntCmp(op token.Token, a, b *Term, t types.Type) *Term
	IntNeg(e *Exec, st *State, a *Term, t types.Type, where string) *Term
	FloatBin(e *Exec, st *State, op token.Token, a, b *Term, where string) *Term
	FloatCmp(op token.Token, a, b *Term) *Term
	FloatNeg(a *Term) *Term
	ConvIntInt(e *Exec, st *State, a *Term, from, to types.Type, where string) *Term
	ConvIntFloat(a *Term, from types.Type) *Term
	ConvFloatInt(e *Exec, st *State, a *Term, to types.Type, where string) *Term
	Math(e *Exec, st *State, name string, args []*Term, where string) (*Term, bool)
	// IndexInt converts a Go integer term to the Int sort used for indexing.
	IndexInt(a *Term, t types.Type) *Term
	FromIndexInt(a *Term, t types.Type) *Term
}

func intRange(t types.Type) (*big.Int, *big.Int) {
	bits := intBits(t)
	lo, hi := new(big.Int), new(big.Int)
	if isUnsigned(t) {
		hi.Lsh(big.NewInt(1), uint(bits))
		hi.Sub(hi, big.NewInt(1))
	} else {
		hi.Lsh(big.NewInt(1), uint(bits-1))
		lo.Neg(hi)
		hi.Sub(hi, big.NewInt(1))
	}
	return lo, hi
}

// ================= Mode R: Int / Real =================

type ArithR struct{ S *Store }

func (a *ArithR) Name() string              { return "R" }
func (a *ArithR) IntSort(t types.Type) Sort { return SInt }
func (a *ArithR) FloatSort() Sort           { return SReal }
func (a *ArithR) IntConst(v *big.Int, t types.Type) *Term {
	return a.S.BigInt(v)
}
func (a *ArithR) FloatConst(f float64) *Term               { return a.S.Float(f) }
func (a *ArithR) IndexInt(x *Term, t types.Type) *Term     { return x }
func (a *ArithR) FromIndexInt(x *Term, t types.Type) *Term { return x }

func (a *ArithR) inRange(x *Term, t types.Type) *Term {
	lo, hi := intRange(t)
	return a.S.And(a.S.Le(a.S.BigInt(lo), x), a.S.Le(x, a.S.BigInt(hi)))
}

// wrap: exact modular reduction into the range of t (used for small widths).
func (a *ArithR) wrap(x *Term, t types.Type) *Term {
	lo, hi := intRange(t)
	if x.IsConst() {
		m := new(big.Int).Sub(hi, lo)
		m.Add(m, big.NewInt(1))
		v := new(big.Int).Sub(x.I, lo)
		v.Mod(v, m)
		v.Add(v, lo)
		return a.S.BigInt(v)
	}
	m := new(big.Int).Sub(hi, lo)
	m.Add(m, big.NewInt(1))
	s := a.S
	return s.Add(s.IMod(s.Sub(x, s.BigInt(lo)), s.BigInt(m)), s.BigInt(lo))
}

func (a *ArithR) fit(e *Exec, st *State, r *Term, t types.Type, where string) *Term {
	if r.IsConst() {
		return a.wrap(r, t)
	}
	if intBits(t) < 64 && isUnsigned(t) {
		return a.wrap(r, t)
	}
	if leaves(r) > 0 {
		return a.S.lift1(r, func(x *Term) *Term { return a.wrap(x, t) })
	}
	e.side("overflow", st, a.inRange(r, t), where)
	return r
}

// truncated division from SMT's euclidean div/mod
func (a *ArithR) truncDiv(x, y *Term) (q, r *Term) {
	s := a.S
	if x.IsConst() && y.IsConst() && y.I.Sign() != 0 {
		qq, rr := new(big.Int), new(big.Int)
		qq.QuoRem(x.I, y.I, rr)
		return s.BigInt(qq), s.BigInt(rr)
	}
	if res, ok := s.lift2(x, y, func(p, q *Term) *Term {
		if q.I.Sign() == 0 {
			return s.Int(0)
		}
		d := new(big.Int).Quo(p.I, q.I)
		return s.BigInt(d)
	}); ok {
		return res, s.Sub(x, s.Mul(y, res))
	}
	qe := s.IDiv(x, y)
	re := s.IMod(x, y)
	zero := s.Int(0)
	adj := s.And(s.Lt(x, zero), s.Not(s.Eq(re, zero)))
	qt := s.Ite(adj, s.Ite(s.Lt(zero, y), s.Add(qe, s.Int(1)), s.Sub(qe, s.Int(1))), qe)
	return qt, s.Sub(x, s.Mul(y, qt))
}

func (a *ArithR) IntBin(e *Exec, st *State, op token.Token, x, y *Term, t types.Type, where string) *Term {
	s := a.S
	switch op {
	case token.ADD:
		return a.fit(e, st, s.Add(x, y), t, where)
	case token.SUB:
		return a.fit(e, st, s.Sub(x, y), t, where)
	case token.MUL:
		return a.fit(e, st, s.Mul(x, y), t, where)
	case token.QUO, token.REM:
		zero := s.Int(0)
		isZero := s.Eq(y, zero)
		if !isZero.IsFalse() {
			e.abortIf(st, isZero, "divzero", where)
			if st.dead() {
				return zero
			}
		}
		q, r := a.truncDiv(x, y)
		if op == token.QUO {
			return a.fit(e, st, q, t, where)
		}
		return r
	case token.SHL, token.SHR:
		if k, ok := y.ConstInt(); ok && k >= 0 && k < 63 {
			p := s.BigInt(new(big.Int).Lsh(big.NewInt(1), uint(k)))
			if op == token.SHL {
				return a.fit(e, st, s.Mul(x, p), t, where)
			}
			return s.IDiv(x, p) // floor == arithmetic shift
		}
	case token.AND, token.OR, token.XOR, token.AND_NOT:
		if x.IsConst() && y.IsConst() {
			r := new(big.Int)
			switch op {
			case token.AND:
				r.And(x.I, y.I)
			case token.OR:
				r.Or(x.I, y.I)
			case token.XOR:
				r.Xor(x.I, y.I)
			case token.AND_NOT:
				r.AndNot(x.I, y.I)
			}
			return a.wrap(s.BigInt(r), t)
		}
		if op == token.AND {
			// x & (2^k-1) for non-negative x
			if m, ok := y.ConstInt(); ok && m > 0 && (m&(m+1)) == 0 && isUnsigned(t) {
				return s.IMod(x, s.Int(m+1))
			}
		}
	}
	e.unsupported(st, fmt.Sprintf("int op %v on symbolic operands at %s", op, where))
	return s.Int(0)
}

func (a *ArithR) IntCmp(op token.Token, x, y *Term, t types.Type) *Term {
	return cmpGeneric(a.S, op, x, y)
}

func cmpGeneric(s *Store, op token.Token, x, y *Term) *Term {
	switch op {
	case token.EQL:
		return s.Eq(x, y)
	case token.NEQ:
		return s.Not(s.Eq(x, y))
	case token.LSS:
		return s.Lt(x, y)
	case token.LEQ:
		return s.Le(x, y)
	case token.GTR:
		return s.Lt(y, x)
	case token.GEQ:
		return s.Le(y, x)
	}
	panic("cmp op " + op.String())
}

func (a *ArithR) IntNeg(e *Exec, st *State, x *Term, t types.Type, where string) *Term {
	return a.fit(e, st, a.S.Neg(x), t, where)
}

func (a *ArithR) FloatBin(e *Exec, st *State, op token.Token, x, y *Term, where string) *Term {
	s := a.S
	switch op {
	case token.ADD:
		return s.Add(x, y)
	case token.SUB:
		return s.Sub(x, y)
	case token.MUL:
		return s.Mul(x, y)
	case token.QUO:
		nz := s.Not(s.Eq(y, s.Float(0)))
		if !nz.IsTrue() {
			e.side("fdivzero", st, nz, where)
			if nz.IsFalse() {
				// definitely division by zero: value is unconstrained
				return e.freshReal("divzero")
			}
		}
		return s.RDiv(x, y)
	}
	panic("float op " + op.String())
}
func (a *ArithR) FloatCmp(op token.Token, x, y *Term) *Term { return cmpGeneric(a.S, op, x, y) }
func (a *ArithR) FloatNeg(x *Term) *Term                    { return a.S.Neg(x) }

func (a *ArithR) ConvIntInt(e *Exec, st *State, x *Term, from, to types.Type, where string) *Term {
	flo, fhi := intRange(from)
	tlo, thi := intRange(to)
	if tlo.Cmp(flo) <= 0 && thi.Cmp(fhi) >= 0 {
		return x // widening
	}
	if x.IsConst() {
		return a.wrap(x, to)
	}
	if leaves(x) > 0 {
		return a.S.lift1(x, func(v *Term) *Term { return a.wrap(v, to) })
	}
	if intBits(to) < 64 {
		return a.wrap(x, to)
	}
	e.side("convwrap", st, a.inRange(x, to), where)
	return x
}
func (a *ArithR) ConvIntFloat(x *Term, from types.Type) *Term { return a.S.ToReal(x) }

func (a *ArithR) truncReal(x *Term) *Term {
	s := a.S
	if x.IsConst() {
		fl := ratFloor(x.R)
		if x.R.Sign() < 0 && !x.R.IsInt() {
			fl.Add(fl, big.NewInt(1))
		}
		return s.BigInt(fl)
	}
	return s.Ite(s.Le(s.Float(0), x), s.ToInt(x), s.Neg(s.ToInt(s.Neg(x))))
}

func (a *ArithR) ConvFloatInt(e *Exec, st *State, x *Term, to types.Type, where string) *Term {
	r := a.truncReal(x)
	if r.IsConst() {
		return a.wrap(r, to)
	}
	e.side("f2i-range", st, a.inRange(r, to), where)
	return r
}

// ceilReal = -floor(-x)
func (a *ArithR) ceilInt(x *Term) *Term { return a.S.Neg(a.S.ToInt(a.S.Neg(x))) }

var ufAxiomsDone = map[string]bool{}

func (a *ArithR) Math(e *Exec, st *State, name string, args []*Term, where string) (*Term, bool) {
	s := a.S
	zero := s.Float(0)
	switch name {
	case "Abs":
		x := args[0]
		return s.Ite(s.Lt(x, zero), s.Neg(x), x), true
	case "Max":
		return s.Ite(s.Lt(args[0], args[1]), args[1], args[0]), true
	case "Min":
		return s.Ite(s.Lt(args[1], args[0]), args[1], args[0]), true
	case "Floor":
		return s.ToReal(s.ToInt(args[0])), true
	case "Ceil":
		return s.ToReal(a.ceilInt(args[0])), true
	case "Trunc":
		return s.ToReal(a.truncReal(args[0])), true
	case "Round": // half away from zero
		x := args[0]
		half := s.Float(0.5)
		pos := s.ToReal(s.ToInt(s.Add(x, half)))
		neg := s.Neg(s.ToReal(s.ToInt(s.Add(s.Neg(x), half))))
		return s.Ite(s.Le(zero, x), pos, neg), true
	case "Mod":
		// only x mod 1-like concrete moduli: x - y*trunc(x/y)
		x, y := args[0], args[1]
		if y.IsConst() && y.R.Sign() != 0 {
			q := s.ToReal(a.truncReal(s.RDiv(x, y)))
			return s.Sub(x, s.Mul(y, q)), true
		}
	case "Sqrt", "Exp", "Log", "Sin", "Cos", "Tan", "Asin", "Acos", "Atan", "Log10":
		x := args[0]
		if x.IsConst() {
			f, _ := x.R.Float64()
			var r float64
			switch name {
			case "Sqrt":
				r = math.Sqrt(f)
			case "Exp":
				r = math.Exp(f)
			case "Log":
				r = math.Log(f)
			case "Log10":
				r = math.Log10(f)
			case "Sin":
				r = math.Sin(f)
			case "Cos":
				r = math.Cos(f)
			case "Tan":
				r = math.Tan(f)
			case "Asin":
				r = math.Asin(f)
			case "Acos":
				r = math.Acos(f)
			case "Atan":
				r = math.Atan(f)
			}
			if math.IsNaN(r) || math.IsInf(r, 0) {
				e.side("math-domain", st, s.False, where+" "+name)
				return e.freshReal("nan"), true
			}
			return s.Float(r), true
		}
		return a.ufMath(e, st, name, x, where), true
	case "Pow":
		x, y := args[0], args[1]
		if x.IsConst() && y.IsConst() {
			fx, _ := x.R.Float64()
			fy, _ := y.R.Float64()
			r := math.Pow(fx, fy)
			if math.IsNaN(r) || math.IsInf(r, 0) {
				e.side("math-domain", st, s.False, where+" Pow")
				return e.freshReal("nan"), true
			}
			return s.Float(r), true
		}
		if y.IsConst() && y.R.IsInt() {
			n := y.R.Num().Int64()
			if n >= 0 && n <= 8 {
				r := s.Float(1)
				for i := int64(0); i < n; i++ {
					r = s.Mul(r, x)
				}
				return r, true
			}
		}
		return a.ufPow(e, st, x, y, where), true
	}
	return nil, false
}

// ufMath: uninterpreted function + site axioms (range, sign) added to the
// executor's axiom set. Monotonicity between sites is added pairwise.
func (a *ArithR) ufMath(e *Exec, st *State, name string, x *Term, where string) *Term {
	s := a.S
	fn := "uf_" + name
	key := fmt.Sprintf("%s#%d", fn, x.ID)
	var r *Term
	if e.UFFresh {
		// over-approximation for the nonlinear solvers: one fresh variable per application site
		// (same argument term = same variable), constrained by the site axioms only
		if old, ok := e.ufFreshVars[key]; ok {
			return old
		}
		r = e.freshVar("uf_"+name, SReal)
		e.ufFreshVars[key] = r
	} else {
		r = s.UF(fn, SReal, x)
	}
	if e.axiomSeen[key] {
		return r
	}
	e.axiomSeen[key] = true
	zero, one := s.Float(0), s.Float(1)
	ax := func(t *Term) { e.Axioms = append(e.Axioms, t) }
	halfPi := s.Float(math.Pi / 2)
	switch name {
	case "Sqrt":
		e.side("math-domain", st, s.Le(zero, x), where+" Sqrt")
		ax(s.Implies(s.Le(zero, x), s.And(s.Le(zero, r), s.Eq(s.Mul(r, r), x))))
	case "Exp":
		ax(s.Lt(zero, r))
		ax(s.Eq(s.Lt(x, zero), s.Lt(r, one)))
		ax(s.Eq(s.Eq(x, zero), s.Eq(r, one)))
		// exp(x) >= 1 + x
		ax(s.Le(s.Add(one, x), r))
		// direct forms (redundant, but they save the solvers a case split)
		ax(s.Implies(s.Le(x, zero), s.Le(r, one)))
		ax(s.Implies(s.Le(zero, x), s.Le(one, r)))
	case "Log", "Log10":
		e.side("math-domain", st, s.Lt(zero, x), where+" Log")
		ax(s.Implies(s.Lt(zero, x), s.And(s.Eq(s.Lt(x, one), s.Lt(r, zero)), s.Eq(s.Eq(x, one), s.Eq(r, zero)))))
		if name == "Log" {
			ax(s.Implies(s.Lt(zero, x), s.Le(r, s.Sub(x, one))))
		}
	case "Sin", "Cos":
		ax(s.And(s.Le(s.Float(-1), r), s.Le(r, one)))
	case "Tan":
	case "Asin":
		e.side("math-domain", st, s.And(s.Le(s.Float(-1), x), s.Le(x, one)), where+" Asin")
		ax(s.And(s.Le(s.Neg(halfPi), r), s.Le(r, halfPi)))
		ax(s.Eq(s.Lt(x, zero), s.Lt(r, zero)))
	case "Acos":
		e.side("math-domain", st, s.And(s.Le(s.Float(-1), x), s.Le(x, one)), where+" Acos")
		ax(s.And(s.Le(zero, r), s.Le(r, s.Float(math.Pi))))
	case "Atan":
		ax(s.And(s.Lt(s.Neg(halfPi), r), s.Lt(r, halfPi)))
		ax(s.Eq(s.Lt(x, zero), s.Lt(r, zero)))
	}
	// monotonicity against earlier sites of the same function
	mono := 0
	switch name {
	case "Sqrt", "Exp", "Log", "Log10", "Asin", "Atan":
		mono = 1
	case "Acos":
		mono = -1
	}
	if mono != 0 {
		sites := e.ufSites[fn]
		if len(sites) > 8 {
			sites = sites[len(sites)-8:] // pairwise monotonicity only against the most recent sites
		}
		for _, prev := range sites {
			var pr *Term
			if e.UFFresh {
				pr = e.ufFreshVars[fmt.Sprintf("%s#%d", fn, prev.ID)]
				if pr == nil {
					continue
				}
			} else {
				pr = s.UF(fn, SReal, prev)
			}
			if mono > 0 {
				ax(s.Eq(s.Lt(prev, x), s.Lt(pr, r)))
			} else {
				ax(s.Eq(s.Lt(prev, x), s.Lt(r, pr)))
			}
		}
	}
	// lemma points of the periodic functions: the native value near p (Lipschitz constant 1)
	if name == "Sin" || name == "Cos" {
		for _, p := range e.LemmaPoints[name] {
			v := math.Sin(p)
			if name == "Cos" {
				v = math.Cos(p)
			}
			d := s.Sub(x, s.Float(p))
			near := s.And(s.Le(s.Float(-1e-9), d), s.Le(d, s.Float(1e-9)))
			ax(s.Implies(near, s.And(s.Le(s.Float(v-1e-8), r), s.Le(r, s.Float(v+1e-8)))))
		}
	}
	// sine is increasing on [-pi/2, pi/2], cosine decreasing on [0, pi]: lemma points "SinMono"/"CosMono"
	if name == "Sin" {
		hp := math.Pi / 2
		inI := s.And(s.Le(s.Float(-hp), x), s.Le(x, s.Float(hp)))
		for _, p := range e.LemmaPoints["SinMono"] {
			v := math.Sin(p)
			ax(s.Implies(s.And(inI, s.Le(s.Float(p), x)), s.Le(s.Float(v-1e-12), r)))
			ax(s.Implies(s.And(inI, s.Le(x, s.Float(p))), s.Le(r, s.Float(v+1e-12))))
		}
	}
	if name == "Cos" {
		inI := s.And(s.Le(s.Float(0), x), s.Le(x, s.Float(math.Pi)))
		for _, p := range e.LemmaPoints["CosMono"] {
			v := math.Cos(p)
			ax(s.Implies(s.And(inI, s.Le(s.Float(p), x)), s.Le(r, s.Float(v+1e-12))))
			ax(s.Implies(s.And(inI, s.Le(x, s.Float(p))), s.Le(s.Float(v-1e-12), r)))
		}
	}
	// lemma points: native value at p (widened) + monotonicity
	if mono != 0 {
		for _, p := range e.LemmaPoints[name] {
			var v float64
			switch name {
			case "Sqrt":
				v = math.Sqrt(p)
			case "Exp":
				v = math.Exp(p)
			case "Log":
				v = math.Log(p)
			case "Log10":
				v = math.Log10(p)
			case "Asin":
				v = math.Asin(p)
			case "Atan":
				v = math.Atan(p)
			case "Acos":
				v = math.Acos(p)
			}
			if math.IsNaN(v) || math.IsInf(v, 0) {
				continue
			}
			w := math.Abs(v)*1e-12 + 1e-300
			up, dn := s.Float(v+w), s.Float(v-w)
			pt := s.Float(p)
			if mono > 0 {
				ax(s.Implies(s.Le(x, pt), s.Le(r, up)))
				ax(s.Implies(s.Le(pt, x), s.Le(dn, r)))
			} else {
				ax(s.Implies(s.Le(x, pt), s.Le(dn, r)))
				ax(s.Implies(s.Le(pt, x), s.Le(r, up)))
			}
		}
	}
	e.ufSites[fn] = append(e.ufSites[fn], x)
	e.UFUsed[name]++
	return r
}

func (a *ArithR) ufPow(e *Exec, st *State, x, y *Term, where string) *Term {
	s := a.S
	key := fmt.Sprintf("uf_Pow#%d#%d", x.ID, y.ID)
	var r *Term
	if e.UFFresh {
		if old, ok := e.ufFreshVars[key]; ok {
			return old
		}
		r = e.freshVar("uf_Pow", SReal)
		e.ufFreshVars[key] = r
	} else {
		r = s.UF("uf_Pow", SReal, x, y)
	}
	if e.axiomSeen[key] {
		return r
	}
	e.axiomSeen[key] = true
	zero, one := s.Float(0), s.Float(1)
	ax := func(t *Term) { e.Axioms = append(e.Axioms, t) }
	// domain: x >= 0 (or integer exponent); we only use x>=0 contract
	e.side("math-domain", st, s.Le(zero, x), where+" Pow base")
	// x>0 => r>0 ; x=0,y>0 => r=0 ; 0<=x<=1,y>=0 => 0<=r<=1 ; x>=1,y>=0 => r>=1
	ax(s.Implies(s.Lt(zero, x), s.Lt(zero, r)))
	ax(s.Implies(s.Le(zero, x), s.Le(zero, r)))
	ax(s.Implies(s.And(s.Eq(x, zero), s.Lt(zero, y)), s.Eq(r, zero)))
	ax(s.Implies(s.And(s.Le(zero, x), s.Le(x, one), s.Le(zero, y)), s.And(s.Le(zero, r), s.Le(r, one))))
	ax(s.Implies(s.And(s.Le(one, x), s.Le(zero, y)), s.Le(one, r)))
	ax(s.Implies(s.And(s.Le(zero, x), s.Le(x, one), s.Le(one, y)), s.Le(r, x)))
	ax(s.Implies(s.Eq(y, zero), s.Eq(r, one)))
	ax(s.Implies(s.Eq(y, one), s.Eq(r, x)))
	e.UFUsed["Pow"]++
	return r
}
