package sym

import (
	"fmt"
	"go/token"
	"go/types"
	"math/big"
	"path"
	"path/filepath"
	"strconv"
	"strings"
	"unicode/utf8"

	"golang.org/x/tools/go/ssa"
)

const tokLSS = token.LSS

type stubFn func(e *Exec, st *State, fn *ssa.Function, args []Val, where string) Val

// UserStub lets a check install additional stubs (by function name).
type UserStub func(e *Exec, st *State, fn *ssa.Function, args []Val, where string) (Val, bool)

func (e *Exec) SetUserStub(u UserStub) { e.userStub = u }

var errTypeName = types.NewTypeName(token.NoPos, nil, "verifError", nil)
var errType = types.NewNamed(errTypeName, types.Typ[types.String], nil)

func (e *Exec) mkError(msg Val) Val { return &IfaceV{T: errType, V: msg} }

func (e *Exec) ifaceStub(st *State, r *IfaceV, m *types.Func, args []Val, where string) (Val, bool) {
	if r.T == errType && m.Name() == "Error" {
		return r.V, true
	}
	if rt, ok := r.V.(*ReflT); ok {
		return e.reflTypeMethod(st, rt, m, args, where)
	}
	if u, ok := r.T.(*types.Named); ok && u.Obj().Name() == "verifOutWriter" {
		_ = u
	}
	return nil, false
}

// ---- input variables

func (e *Exec) inputName(st *State, args []Val, where string) string {
	name, ok := e.concStr(args[0])
	if !ok {
		panic(&UnsupportedErr{Msg: "input name must be a concrete string at " + where})
	}
	if len(args) > 1 {
		for _, iv := range e.sliceElemsOrNil(st, args[1], where) {
			k, ok := e.term(iv, "input index").ConstInt()
			if !ok {
				panic(&UnsupportedErr{Msg: "input index must be concrete at " + where})
			}
			name += "_" + strconv.FormatInt(k, 10)
		}
	}
	return name
}

func (e *Exec) sliceElemsOrNil(st *State, v Val, where string) []Val {
	if sl, ok := v.(*SliceV); ok && sl.Obj == 0 {
		return nil
	}
	return e.sliceElems(st, v, where)
}

func (e *Exec) Input(name, kind string, t types.Type) *Term {
	name = e.SymPrefix + name
	if v, ok := e.inputBy[name]; ok {
		return v
	}
	if e.Concrete != nil {
		// interpreter replay: inputs take the values of a solver model
		sv := e.Concrete[name]
		var c *Term
		switch kind {
		case "bool":
			c = e.S.Bool(sv == "true")
		case "int", "byte":
			bi, ok := new(big.Int).SetString(sv, 10)
			if !ok {
				bi = new(big.Int)
			}
			c = e.F.IntConst(bi, t)
		case "float":
			f, _ := strconv.ParseFloat(sv, 64)
			c = e.F.FloatConst(f)
		}
		e.inputBy[name] = c
		return c
	}
	var so Sort
	switch kind {
	case "int", "byte":
		so = e.F.IntSort(t)
	case "float":
		so = e.F.FloatSort()
	case "bool":
		so = SBool
	}
	v := e.S.Var(name, so)
	e.inputBy[name] = v
	e.Inputs = append(e.Inputs, Input{Name: name, Term: v, Kind: kind})
	if so.K == KInt && (kind == "int" || kind == "byte") {
		lo, hi := intRange(t)
		e.Axioms = append(e.Axioms, e.S.And(e.S.Le(e.S.BigInt(lo), v), e.S.Le(v, e.S.BigInt(hi))))
	}
	return v
}

var intrinsics map[string]stubFn

// lateIntrinsics: registrations from other files' init functions, applied after the table exists
var lateIntrinsics []func()

func init() {
	intrinsics = map[string]stubFn{
		"vInt": func(e *Exec, st *State, fn *ssa.Function, args []Val, where string) Val {
			return e.Input(e.inputName(st, args, where), "int", types.Typ[types.Int])
		},
		"vByte": func(e *Exec, st *State, fn *ssa.Function, args []Val, where string) Val {
			return e.Input(e.inputName(st, args, where), "byte", types.Typ[types.Uint8])
		},
		"vFloat": func(e *Exec, st *State, fn *ssa.Function, args []Val, where string) Val {
			return e.Input(e.inputName(st, args, where), "float", types.Typ[types.Float64])
		},
		"vBool": func(e *Exec, st *State, fn *ssa.Function, args []Val, where string) Val {
			return e.Input(e.inputName(st, args, where), "bool", types.Typ[types.Bool])
		},
		"vAssume": func(e *Exec, st *State, fn *ssa.Function, args []Val, where string) Val {
			st.G = e.S.And(st.G, e.term(args[0], "vAssume"))
			return nil
		},
		"vAssert": func(e *Exec, st *State, fn *ssa.Function, args []Val, where string) Val {
			id, ok := e.concStr(args[0])
			if !ok {
				panic(&UnsupportedErr{Msg: "vAssert id must be concrete at " + where})
			}
			e.Obls = append(e.Obls, Obligation{ID: id, Guard: st.G, Cond: e.term(args[1], "vAssert"), Where: where})
			return nil
		},
		"vCover": func(e *Exec, st *State, fn *ssa.Function, args []Val, where string) Val {
			id, _ := e.concStr(args[0])
			e.Covers = append(e.Covers, CoverRec{ID: id, Guard: st.G})
			return nil
		},
		"vKnown": func(e *Exec, st *State, fn *ssa.Function, args []Val, where string) Val {
			id, _ := e.concStr(args[0])
			return e.S.Bool(e.Known[id])
		},
		"vSymbolic": func(e *Exec, st *State, fn *ssa.Function, args []Val, where string) Val {
			return e.S.True
		},
		"vOutCount": func(e *Exec, st *State, fn *ssa.Function, args []Val, where string) Val {
			return e.F.IntConst(big.NewInt(int64(len(e.Outs))), types.Typ[types.Int])
		},
		"vObserve": func(e *Exec, st *State, fn *ssa.Function, args []Val, where string) Val {
			name, _ := e.concStr(args[0])
			e.Observes = append(e.Observes, ObserveRec{Name: name, Guard: st.G, Term: e.term(args[1], "vObserve")})
			return nil
		},
		"vObserveInt": func(e *Exec, st *State, fn *ssa.Function, args []Val, where string) Val {
			name, _ := e.concStr(args[0])
			e.Observes = append(e.Observes, ObserveRec{Name: name, Guard: st.G, Term: e.term(args[1], "vObserveInt")})
			return nil
		},
		"vObserveStr": func(e *Exec, st *State, fn *ssa.Function, args []Val, where string) Val {
			name, _ := e.concStr(args[0])
			e.Observes = append(e.Observes, ObserveRec{Name: name, Guard: st.G, Str: args[1]})
			return nil
		},
		"vLemmaPoint": func(e *Exec, st *State, fn *ssa.Function, args []Val, where string) Val {
			name, _ := e.concStr(args[0])
			t := e.term(args[1], "vLemmaPoint")
			if !t.IsConst() {
				panic(&UnsupportedErr{Msg: "lemma point must be concrete at " + where})
			}
			f, _ := t.R.Float64()
			e.LemmaPoints[name] = append(e.LemmaPoints[name], f)
			return nil
		},
		"vCaptureStart": func(e *Exec, st *State, fn *ssa.Function, args []Val, where string) Val {
			e.CaptureMark = len(e.Outs)
			return nil
		},
		"vCaptureEnd": func(e *Exec, st *State, fn *ssa.Function, args []Val, where string) Val {
			var acc Val = &StrV{}
			for _, ev := range e.Outs[e.CaptureMark:] {
				if ev.Chan != "stdout" {
					continue
				}
				both := e.S.And(st.G, ev.Guard)
				if both.IsFalse() {
					continue
				}
				if both != st.G && !e.implied(st.G, ev.Guard, 0) {
					// decide with the solver whether the event is on the current path
					if !e.Feasible(both) {
						continue
					}
					if e.Feasible(e.S.And(st.G, e.S.Not(ev.Guard))) {
						panic(&UnsupportedErr{Msg: "captured output event is conditional on the current path at " + where})
					}
				}
				if ev.Text != nil {
					acc = e.strConcat(acc, ev.Text)
				}
			}
			return acc
		},
		"vTokens": func(e *Exec, st *State, fn *ssa.Function, args []Val, where string) Val {
			sv, ok := args[0].(*StrV)
			if !ok {
				panic(&UnsupportedErr{Msg: fmt.Sprintf("vTokens on %T at %s", args[0], where)})
			}
			var ints []Val
			var texts []Val
			cur := ""
			flushInt := func(t *Term) {
				texts = append(texts, &StrV{Conc: cur})
				cur = ""
				ints = append(ints, t)
			}
			for _, sg := range e.segsOf(sv) {
				if sg.Dec != nil {
					if cur != "" && cur[len(cur)-1] >= '0' && cur[len(cur)-1] <= '9' {
						panic(&UnsupportedErr{Msg: "decimal segment adjacent to a literal digit at " + where})
					}
					flushInt(sg.Dec)
					continue
				}
				i := 0
				for i < len(sg.Text) {
					c := sg.Text[i]
					if c < '0' || c > '9' {
						cur += string(c)
						i++
						continue
					}
					if len(ints) > 0 && cur == "" && len(texts) == len(ints) {
						panic(&UnsupportedErr{Msg: "literal digit adjacent to a decimal segment at " + where})
					}
					j := i
					for j < len(sg.Text) && sg.Text[j] >= '0' && sg.Text[j] <= '9' {
						j++
					}
					k, _ := strconv.ParseInt(sg.Text[i:j], 10, 64)
					flushInt(e.S.Int(k))
					i = j
				}
			}
			texts = append(texts, &StrV{Conc: cur})
			return TupleV{e.mkSlice(st, types.Typ[types.Int], ints), e.mkSlice(st, types.Typ[types.String], texts)}
		},
		"vTag": func(e *Exec, st *State, fn *ssa.Function, args []Val, where string) Val {
			name, _ := e.concStr(args[1])
			if iv, ok := args[0].(*IfaceV); ok {
				if p, ok := iv.V.(*Ptr); ok && p.Obj != 0 {
					e.Tags[p.Obj] = name
				}
			}
			return nil
		},
		"vCalls": func(e *Exec, st *State, fn *ssa.Function, args []Val, where string) Val {
			name, _ := e.concStr(args[0])
			cnt := e.S.Int(0)
			for _, ev := range e.Outs {
				if ev.Chan == name {
					cnt = e.S.Add(cnt, e.S.Ite(ev.Guard, e.S.Int(1), e.S.Int(0)))
				}
			}
			return e.F.FromIndexInt(cnt, types.Typ[types.Int])
		},
		"vGoCount": func(e *Exec, st *State, fn *ssa.Function, args []Val, where string) Val {
			// number of go statements executed whose string arguments include the given text
			want, _ := e.concStr(args[0])
			cnt := e.S.Int(0)
			for _, ev := range e.Outs {
				if !strings.HasPrefix(ev.Chan, "go:") {
					continue
				}
				if t, ok := ev.Text.(*StrV); ok && strings.Contains(t.Conc, "|"+want+"|") {
					cnt = e.S.Add(cnt, e.S.Ite(ev.Guard, e.S.Int(1), e.S.Int(0)))
				}
			}
			return e.F.FromIndexInt(cnt, types.Typ[types.Int])
		},
		"vRegister": func(e *Exec, st *State, fn *ssa.Function, args []Val, where string) Val { return nil },
		"vFloatText": func(e *Exec, st *State, fn *ssa.Function, args []Val, where string) Val {
			name := e.inputName(st, args, where)
			e.Input(name, "float", types.Typ[types.Float64])
			return &StrV{Conc: "@f:" + name + "@"}
		},
		"vIntText": func(e *Exec, st *State, fn *ssa.Function, args []Val, where string) Val {
			name := e.inputName(st, args, where)
			e.Input(name, "int", types.Typ[types.Int])
			return &StrV{Conc: "@i:" + name + "@"}
		},
		"vFieldName": func(e *Exec, st *State, fn *ssa.Function, args []Val, where string) Val {
			// name of the i-th field of the struct that the (pointer) argument points to
			iv, ok := args[0].(*IfaceV)
			if !ok || iv.T == nil {
				panic(&UnsupportedErr{Msg: "vFieldName needs a pointer to a struct at " + where})
			}
			t := iv.T
			if pt, ok := t.Underlying().(*types.Pointer); ok {
				t = pt.Elem()
			}
			s, ok := t.Underlying().(*types.Struct)
			k, okc := e.term(args[1], "vFieldName").ConstInt()
			if !ok || !okc || k < 0 || int(k) >= s.NumFields() {
				panic(&UnsupportedErr{Msg: "vFieldName: bad argument at " + where})
			}
			return &StrV{Conc: s.Field(int(k)).Name()}
		},
	}
	for _, f := range lateIntrinsics {
		f()
	}
}

// numToken recognises the text that vFloatText / vIntText produce under the
// executor: "@f:<input name>@" / "@i:<input name>@". Natively the same
// intrinsics render the replayed value, so parsing it gives the input back.
func numToken(s string) (name, kind string, ok bool) {
	if len(s) > 4 && s[0] == '@' && s[2] == ':' && s[len(s)-1] == '@' && (s[1] == 'f' || s[1] == 'i') {
		return s[3 : len(s)-1], string(s[1]), true
	}
	return "", "", false
}

// ---- standard library stubs

var stubs map[string]stubFn

// splitStrIte: when an argument is a conditional string, the (pure) stub is evaluated for both
// alternatives and the results are merged.
func (e *Exec) splitStrIte(st *State, fn *ssa.Function, args []Val, where string, f stubFn) (Val, bool) {
	for i, a := range args {
		it, ok := a.(*StrIte)
		if !ok {
			continue
		}
		aa := append([]Val{}, args...)
		aa[i] = it.A
		ra := f(e, st, fn, aa, where)
		ab := append([]Val{}, args...)
		ab[i] = it.B
		rb := f(e, st, fn, ab, where)
		return e.mergeVal(it.C, ra, rb), true
	}
	return nil, false
}

func concArgs(e *Exec, args []Val) ([]string, bool) {
	out := make([]string, len(args))
	for i, a := range args {
		s, ok := e.concStr(a)
		if !ok {
			return nil, false
		}
		out[i] = s
	}
	return out, true
}

func (e *Exec) strSliceVal(st *State, parts []string) Val {
	elems := make([]Val, len(parts))
	for i, p := range parts {
		elems[i] = &StrV{Conc: p}
	}
	return e.mkSlice(st, types.Typ[types.String], elems)
}

func abortStub(kind string) stubFn {
	return func(e *Exec, st *State, fn *ssa.Function, args []Val, where string) Val {
		msg := ""
		if len(args) > 0 {
			msg = e.fmtArgs(st, args, where)
		}
		e.abort(st, kind, where, msg)
		return nil
	}
}

func (e *Exec) fmtArgs(st *State, args []Val, where string) string {
	var parts []string
	for _, a := range args {
		switch x := a.(type) {
		case *StrV:
			if x.Sym == nil {
				parts = append(parts, x.Conc)
			} else {
				parts = append(parts, "<sym>")
			}
		case *SliceV:
			if n, ok := x.Len.ConstInt(); ok && x.Obj != 0 && n < 16 {
				for _, ev := range e.sliceElems(st, x, where) {
					parts = append(parts, e.describe(ev))
				}
			}
		default:
			parts = append(parts, e.describe(a))
		}
	}
	return strings.Join(parts, " ")
}

func outStub(ch string) stubFn {
	return func(e *Exec, st *State, fn *ssa.Function, args []Val, where string) Val {
		var text Val
		isF := strings.HasSuffix(fn.Name(), "f")
		var list []Val
		if len(args) > 0 {
			if isF {
				list = e.sliceElemsOrNil(st, args[len(args)-1], where)
				text = e.sprintf(st, args[len(args)-2], list, where)
			} else {
				list = e.sliceElemsOrNil(st, args[len(args)-1], where)
				text = e.sprint(st, list, strings.HasSuffix(fn.Name(), "ln"), where)
			}
		}
		e.Outs = append(e.Outs, OutEvent{Guard: st.G, Chan: ch, Text: text})
		if fn.Signature.Results().Len() == 2 {
			return TupleV{e.F.IntConst(big.NewInt(0), types.Typ[types.Int]), &IfaceV{}}
		}
		return nil
	}
}

// sprint renders operands like fmt.Sprint / Sprintln for the supported kinds.
func (e *Exec) sprint(st *State, list []Val, ln bool, where string) Val {
	var acc Val = &StrV{}
	for i, a := range list {
		if i > 0 && ln {
			acc = e.strConcat(acc, &StrV{Conc: " "})
		}
		acc = e.strConcat(acc, e.fmtVerb(st, 'v', "", a, where))
	}
	if ln {
		acc = e.strConcat(acc, &StrV{Conc: "\n"})
	}
	return acc
}

func (e *Exec) sprintf(st *State, format Val, list []Val, where string) Val {
	f, ok := e.concStr(format)
	if !ok {
		return &Poison{Why: "symbolic format string"}
	}
	var acc Val = &StrV{}
	ai := 0
	i := 0
	for i < len(f) {
		j := strings.IndexByte(f[i:], '%')
		if j < 0 {
			acc = e.strConcat(acc, &StrV{Conc: f[i:]})
			break
		}
		acc = e.strConcat(acc, &StrV{Conc: f[i : i+j]})
		i += j + 1
		k := i
		for k < len(f) && strings.IndexByte("0123456789.+-# ", f[k]) >= 0 {
			k++
		}
		if k >= len(f) {
			break
		}
		flags := f[i:k]
		verb := f[k]
		i = k + 1
		if verb == '%' {
			acc = e.strConcat(acc, &StrV{Conc: "%"})
			continue
		}
		if ai >= len(list) {
			acc = e.strConcat(acc, &StrV{Conc: "%!" + string(verb) + "(MISSING)"})
			continue
		}
		acc = e.strConcat(acc, e.fmtVerb(st, verb, flags, list[ai], where))
		ai++
	}
	return acc
}

// fmtVerb formats one operand (an interface value).
func (e *Exec) fmtVerb(st *State, verb byte, flags string, a Val, where string) Val {
	iv, ok := a.(*IfaceV)
	if !ok {
		return &Poison{Why: fmt.Sprintf("format operand %T", a)}
	}
	if iv.T == nil {
		return &StrV{Conc: "<nil>"}
	}
	switch v := iv.V.(type) {
	case *StrV, *StrIte:
		if verb == 's' || verb == 'v' {
			return v
		}
		if verb == 'q' {
			return e.strConcat(e.strConcat(&StrV{Conc: "\""}, v), &StrV{Conc: "\""})
		}
	case *Term:
		switch {
		case isInteger(iv.T) && (verb == 'd' || verb == 'v'):
			if k, ok := v.ConstInt(); ok {
				return &StrV{Conc: fmt.Sprintf("%"+flags+"d", k)}
			}
			if e.DecSegs && flags == "" {
				e.side("fmt-nonneg", st, e.S.Le(e.S.Int(0), v), where)
				return &StrV{Segs: []Seg{{Dec: v}}}
			}
			return e.fmtSymInt(st, v, flags, where)
		case isFloat(iv.T):
			if v.IsConst() {
				f, _ := v.R.Float64()
				return &StrV{Conc: fmt.Sprintf("%"+flags+string(verb), f)}
			}
			return &Poison{Why: "format of symbolic float"}
		case isBoolean(iv.T):
			if v.IsConst() {
				return &StrV{Conc: fmt.Sprintf("%v", v.B)}
			}
			return e.mergeVal(v, &StrV{Conc: "true"}, &StrV{Conc: "false"})
		}
	case *IfaceV:
		return e.fmtVerb(st, verb, flags, v, where)
	}
	if iv.T == errType {
		return iv.V
	}
	return &Poison{Why: fmt.Sprintf("format %%%c of %s", verb, iv.T)}
}

// fmtSymInt renders a symbolic non-negative int with %d or %0Nd by forking on
// its digit count (bounded to 6 digits); negative or larger values make the
// result unconstrained bytes of symbolic length — reported as unsupported.
func (e *Exec) fmtSymInt(st *State, v *Term, flags string, where string) Val {
	s := e.S
	width := 0
	zero := false
	if flags != "" {
		if flags[0] == '0' {
			zero = true
		}
		w, err := strconv.Atoi(strings.TrimLeft(flags, "0"))
		if err == nil {
			width = w
		} else if strings.Trim(flags, "0") != "" {
			return &Poison{Why: "format flags " + flags}
		}
	}
	const maxDigits = 6
	e.side("fmt-int-range", st, s.And(s.Le(s.Int(0), v), s.Lt(v, s.Int(1000000))), where)
	digit := func(k int) *Term { // k-th decimal digit from the right (0 = units), as byte
		p := int64(1)
		for i := 0; i < k; i++ {
			p *= 10
		}
		return s.Add(s.IMod(s.IDiv(v, s.Int(p)), s.Int(10)), s.Int('0'))
	}
	var res Val
	p := int64(1)
	for nd := 1; nd <= maxDigits; nd++ {
		p *= 10
		var bs []*Term
		for i := nd; i < width; i++ {
			if zero {
				bs = append(bs, s.Int('0'))
			} else {
				bs = append(bs, s.Int(' '))
			}
		}
		for k := nd - 1; k >= 0; k-- {
			bs = append(bs, digit(k))
		}
		alt := Val(e.mkStr(bs))
		if nd == maxDigits {
			if res == nil {
				res = alt
			} else {
				res = e.mergeVal(s.Lt(v, s.Int(p/10)), res, alt)
			}
			break
		}
		if res == nil {
			res = alt
		} else {
			// v < p/10 ? res : alt
			res = e.mergeVal(s.Lt(v, s.Int(p/10)), res, alt)
		}
	}
	return res
}

func init() {
	if stubs == nil {
		stubs = map[string]stubFn{}
	}
	for _, n := range []string{"log.Fatal", "log.Fatalf", "log.Fatalln", "log.Panic", "log.Panicf", "log.Panicln"} {
		stubs[n] = abortStub("fatal")
	}
	stubs["os.Exit"] = abortStub("exit")
	for _, n := range []string{"log.Print", "log.Printf", "log.Println"} {
		stubs[n] = outStub("log")
	}
	for _, n := range []string{"fmt.Print", "fmt.Printf", "fmt.Println"} {
		stubs[n] = outStub("stdout")
	}
	stubs["fmt.Sprintf"] = func(e *Exec, st *State, fn *ssa.Function, args []Val, where string) Val {
		return e.sprintf(st, args[0], e.sliceElemsOrNil(st, args[1], where), where)
	}
	stubs["fmt.Sprint"] = func(e *Exec, st *State, fn *ssa.Function, args []Val, where string) Val {
		return e.sprint(st, e.sliceElemsOrNil(st, args[0], where), false, where)
	}
	stubs["fmt.Sprintln"] = func(e *Exec, st *State, fn *ssa.Function, args []Val, where string) Val {
		return e.sprint(st, e.sliceElemsOrNil(st, args[0], where), true, where)
	}
	stubs["fmt.Errorf"] = func(e *Exec, st *State, fn *ssa.Function, args []Val, where string) Val {
		return e.mkError(e.sprintf(st, args[0], e.sliceElemsOrNil(st, args[1], where), where))
	}
	stubs["errors.New"] = func(e *Exec, st *State, fn *ssa.Function, args []Val, where string) Val {
		return e.mkError(args[0])
	}
	// strings (concrete arguments evaluated natively)
	conc1 := func(f func(string) string) stubFn {
		return func(e *Exec, st *State, fn *ssa.Function, args []Val, where string) Val {
			return e.strMap(args[0], func(s *StrV) Val {
				if s.Sym != nil {
					return e.symStrFunc(st, fn.Name(), s, where)
				}
				return &StrV{Conc: f(s.Conc)}
			})
		}
	}
	stubs["strings.TrimSpace"] = conc1(strings.TrimSpace)
	stubs["path/filepath.Base"] = conc1(filepath.Base)
	stubs["path/filepath.Clean"] = conc1(filepath.Clean)
	stubs["path/filepath.Ext"] = conc1(filepath.Ext)
	stubs["path/filepath.Dir"] = conc1(filepath.Dir)
	stubs["path.Ext"] = conc1(path.Ext)
	stubs["path.Dir"] = conc1(path.Dir)
	stubs["path.Clean"] = conc1(path.Clean)
	stubs["path.Base"] = conc1(path.Base)
	stubs["strings.ToUpper"] = conc1(strings.ToUpper)
	stubs["strings.ToLower"] = conc1(strings.ToLower)
	stubs["strings.Fields"] = func(e *Exec, st *State, fn *ssa.Function, args []Val, where string) Val {
		a, ok := concArgs(e, args)
		if !ok {
			e.unsupported(st, "strings.Fields on symbolic string at "+where)
			return &Poison{Why: "strings.Fields"}
		}
		return e.strSliceVal(st, strings.Fields(a[0]))
	}
	stubs["strings.Split"] = func(e *Exec, st *State, fn *ssa.Function, args []Val, where string) Val {
		a, ok := concArgs(e, args)
		if !ok {
			return e.symSplit(st, args[0], args[1], where)
		}
		return e.strSliceVal(st, strings.Split(a[0], a[1]))
	}
	conc2b := func(f func(string, string) bool) stubFn {
		var self stubFn
		self = func(e *Exec, st *State, fn *ssa.Function, args []Val, where string) Val {
			if v, ok := e.splitStrIte(st, fn, args, where, self); ok {
				return v
			}
			a, ok := concArgs(e, args)
			if !ok {
				return e.symStrPred(st, fn.Name(), args, where)
			}
			return e.S.Bool(f(a[0], a[1]))
		}
		return self
	}
	stubs["strings.HasPrefix"] = conc2b(strings.HasPrefix)
	stubs["strings.HasSuffix"] = conc2b(strings.HasSuffix)
	stubs["strings.Contains"] = conc2b(strings.Contains)
	stubs["strings.EqualFold"] = conc2b(strings.EqualFold)
	conc2s := func(f func(string, string) string) stubFn {
		var self stubFn
		self = func(e *Exec, st *State, fn *ssa.Function, args []Val, where string) Val {
			if v, ok := e.splitStrIte(st, fn, args, where, self); ok {
				return v
			}
			a, ok := concArgs(e, args)
			if !ok {
				e.unsupported(st, fn.String()+" on symbolic string at "+where)
				return &Poison{Why: fn.String()}
			}
			return &StrV{Conc: f(a[0], a[1])}
		}
		return self
	}
	stubs["strings.TrimPrefix"] = conc2s(strings.TrimPrefix)
	stubs["strings.TrimSuffix"] = conc2s(strings.TrimSuffix)
	stubs["strings.Trim"] = conc2s(strings.Trim)
	stubs["strings.TrimLeft"] = conc2s(strings.TrimLeft)
	stubs["strings.TrimRight"] = conc2s(strings.TrimRight)
	stubs["unicode/utf8.RuneCountInString"] = func(e *Exec, st *State, fn *ssa.Function, args []Val, where string) Val {
		a, ok := concArgs(e, args)
		if !ok {
			e.unsupported(st, "RuneCountInString on symbolic string at "+where)
			return &Poison{Why: "RuneCountInString"}
		}
		return e.F.IntConst(big.NewInt(int64(utf8.RuneCountInString(a[0]))), types.Typ[types.Int])
	}
	stubs["strings.FieldsFunc"] = func(e *Exec, st *State, fn *ssa.Function, args []Val, where string) Val {
		sv, ok := args[0].(*StrV)
		if !ok {
			e.unsupported(st, "strings.FieldsFunc on a conditional string at "+where)
			return &Poison{Why: "FieldsFunc"}
		}
		var parts []Val
		var cur []*Term
		flush := func() {
			if len(cur) > 0 {
				parts = append(parts, e.mkStr(cur))
				cur = nil
			}
		}
		for _, b := range e.strBytes(sv) {
			r := e.callResolved(st, nil, args[1], []Val{b}, nil, where)
			rt, ok := r.(*Term)
			if !ok {
				e.unsupported(st, "FieldsFunc predicate result at "+where)
				return &Poison{Why: "FieldsFunc"}
			}
			if !rt.IsConst() {
				// a symbolic byte must not be a separator (side condition), then it belongs to the field
				e.side("nosep", st, e.S.Not(rt), where)
				rt = e.S.False
			}
			if rt.IsTrue() {
				flush()
			} else {
				cur = append(cur, b)
			}
		}
		flush()
		return e.mkSlice(st, types.Typ[types.String], parts)
	}
	stubs["strings.Index"] = func(e *Exec, st *State, fn *ssa.Function, args []Val, where string) Val {
		a, ok := concArgs(e, args)
		if !ok {
			e.unsupported(st, "strings.Index on symbolic string at "+where)
			return &Poison{Why: "strings.Index"}
		}
		return e.F.IntConst(big.NewInt(int64(strings.Index(a[0], a[1]))), types.Typ[types.Int])
	}
	stubs["strings.ReplaceAll"] = func(e *Exec, st *State, fn *ssa.Function, args []Val, where string) Val {
		a, ok := concArgs(e, args)
		if !ok {
			e.unsupported(st, "strings.ReplaceAll on symbolic string at "+where)
			return &Poison{Why: "strings.ReplaceAll"}
		}
		return &StrV{Conc: strings.ReplaceAll(a[0], a[1], a[2])}
	}
	stubs["strings.Count"] = func(e *Exec, st *State, fn *ssa.Function, args []Val, where string) Val {
		sub, ok := e.concStr(args[1])
		if !ok {
			panic(&UnsupportedErr{Msg: "strings.Count with symbolic pattern at " + where})
		}
		t := e.strMapT(args[0], func(x *StrV) *Term {
			if x.Sym != nil || x.Segs != nil {
				panic(&UnsupportedErr{Msg: "strings.Count on a symbolic text at " + where})
			}
			return e.S.Int(int64(strings.Count(x.Conc, sub)))
		})
		return e.F.FromIndexInt(t, types.Typ[types.Int])
	}
	stubs["strings.ContainsAny"] = func(e *Exec, st *State, fn *ssa.Function, args []Val, where string) Val {
		chars, ok := e.concStr(args[1])
		if !ok {
			panic(&UnsupportedErr{Msg: "strings.ContainsAny with symbolic character set at " + where})
		}
		return e.strMapT(args[0], func(x *StrV) *Term {
			if x.Sym == nil && x.Segs == nil {
				return e.S.Bool(strings.ContainsAny(x.Conc, chars))
			}
			if x.Segs != nil {
				// literal pieces and decimal renderings: digits and '-' come from the numbers
				hit := strings.ContainsAny("0123456789-", chars)
				for _, sg := range x.Segs {
					if sg.Dec == nil && strings.ContainsAny(sg.Text, chars) {
						return e.S.True
					}
					if sg.Dec != nil && hit {
						panic(&UnsupportedErr{Msg: "strings.ContainsAny: digits in a rendered number at " + where})
					}
				}
				return e.S.False
			}
			var cs []*Term
			for _, b := range x.Sym {
				for i := 0; i < len(chars); i++ {
					cs = append(cs, e.S.Eq(b, e.S.Int(int64(chars[i]))))
				}
			}
			return e.S.Or(cs...)
		})
	}
	stubs["strings.Join"] = func(e *Exec, st *State, fn *ssa.Function, args []Val, where string) Val {
		if sl, ok := args[0].(*SliceV); ok && sl.Obj != 0 {
			if _, conc := sl.Len.ConstInt(); !conc {
				// symbolic length n <= cap: the join of the first k elements for k = n
				var res Val = &StrV{}
				var acc Val = &StrV{}
				var alts []Val
				alts = append(alts, acc)
				for i := 0; i < sl.Cap; i++ {
					p := e.load(st, &Ptr{Obj: sl.Obj, Path: appendStep(sl.Path, Step{Idx: e.slIdx(sl, e.S.Int(int64(i)))})}, where)
					if i > 0 {
						acc = e.strConcat(acc, args[1])
					}
					acc = e.strConcat(acc, p)
					alts = append(alts, acc)
				}
				res = alts[len(alts)-1]
				for k := len(alts) - 2; k >= 0; k-- {
					res = e.mergeVal(e.S.Eq(sl.Len, e.S.Int(int64(k))), alts[k], res)
				}
				return res
			}
		}
		var acc Val = &StrV{}
		for i, p := range e.sliceElemsOrNil(st, args[0], where) {
			if i > 0 {
				acc = e.strConcat(acc, args[1])
			}
			acc = e.strConcat(acc, p)
		}
		return acc
	}
	stubs["strconv.Itoa"] = func(e *Exec, st *State, fn *ssa.Function, args []Val, where string) Val {
		t := e.term(args[0], "Itoa")
		if k, ok := t.ConstInt(); ok {
			return &StrV{Conc: strconv.FormatInt(k, 10)}
		}
		return e.fmtSymInt(st, t, "", where)
	}
	stubs["strconv.Atoi"] = func(e *Exec, st *State, fn *ssa.Function, args []Val, where string) Val {
		v, errv := e.parseInt(st, args[0], 64, where)
		return TupleV{v, errv}
	}
	stubs["strconv.ParseInt"] = func(e *Exec, st *State, fn *ssa.Function, args []Val, where string) Val {
		base, _ := e.term(args[1], "base").ConstInt()
		if base != 10 && base != 0 {
			e.unsupported(st, "ParseInt base at "+where)
		}
		bits, _ := e.term(args[2], "bits").ConstInt()
		v, errv := e.parseInt(st, args[0], int(bits), where)
		return TupleV{v, errv}
	}
	stubs["strconv.ParseUint"] = func(e *Exec, st *State, fn *ssa.Function, args []Val, where string) Val {
		bits, _ := e.term(args[2], "bits").ConstInt()
		v, errv := e.parseInt(st, args[0], -int(bits), where)
		return TupleV{v, errv}
	}
	stubs["strconv.ParseFloat"] = func(e *Exec, st *State, fn *ssa.Function, args []Val, where string) Val {
		if sv, isS := args[0].(*StrV); isS && sv.Sym != nil {
			return e.parseFloatSym(st, sv, where)
		}
		s, ok := e.concStr(args[0])
		if !ok {
			e.unsupported(st, "ParseFloat on symbolic string at "+where)
			return TupleV{&Poison{Why: "ParseFloat"}, &Poison{Why: "ParseFloat"}}
		}
		if name, kind, ok := numToken(s); ok {
			// numeric token (vFloatText / vIntText): the text of a harness input
			if kind == "f" {
				return TupleV{e.Input(name, "float", types.Typ[types.Float64]), &IfaceV{}}
			}
			v := e.Input(name, "int", types.Typ[types.Int])
			return TupleV{e.convert(st, v, types.Typ[types.Int], types.Typ[types.Float64], where), &IfaceV{}}
		}
		f, err := strconv.ParseFloat(s, 64)
		if err != nil {
			return TupleV{e.F.FloatConst(0), e.mkError(&StrV{Conc: err.Error()})}
		}
		return TupleV{e.F.FloatConst(f), &IfaceV{}}
	}
	stubs["strconv.ParseBool"] = func(e *Exec, st *State, fn *ssa.Function, args []Val, where string) Val {
		s, ok := e.concStr(args[0])
		if !ok {
			e.unsupported(st, "ParseBool on symbolic string at "+where)
			return TupleV{&Poison{Why: "ParseBool"}, &Poison{Why: "ParseBool"}}
		}
		b, err := strconv.ParseBool(s)
		if err != nil {
			return TupleV{e.S.False, e.mkError(&StrV{Conc: err.Error()})}
		}
		return TupleV{e.S.Bool(b), &IfaceV{}}
	}
	stubs["bytes.Index"] = func(e *Exec, st *State, fn *ssa.Function, args []Val, where string) Val {
		sl, ok1 := args[0].(*SliceV)
		sepEl := e.sliceElems(st, args[1], where)
		if !ok1 || len(sepEl) != 1 {
			e.unsupported(st, "bytes.Index with a separator that is not one byte at "+where)
			return &Poison{Why: "bytes.Index"}
		}
		sep := e.term(sepEl[0], "sep")
		s := e.S
		max := e.MaxSymLen
		if n, ok := sl.Len.ConstInt(); ok {
			max = int(n)
		} else {
			e.side("symlen-bound", st, s.Le(sl.Len, s.Int(int64(max))), where)
		}
		res := s.Int(-1)
		for j := max - 1; j >= 0; j-- {
			inLen := s.Lt(s.Int(int64(j)), sl.Len)
			if inLen.IsFalse() {
				continue
			}
			sub := st.fork()
			sub.G = s.And(sub.G, inLen)
			ev := e.load(sub, &Ptr{Obj: sl.Obj, Path: appendStep(sl.Path, Step{Idx: e.slIdx(sl, s.Int(int64(j)))})}, where)
			if sub.dead() {
				continue
			}
			bt, ok := ev.(*Term)
			if !ok {
				continue
			}
			res = s.Ite(s.And(inLen, s.Eq(bt, sep)), s.Int(int64(j)), res)
		}
		return e.F.FromIndexInt(res, types.Typ[types.Int])
	}
	// sync: ghost lock state in an Opaque object cell
	stubs["(*sync.Mutex).Lock"] = func(e *Exec, st *State, fn *ssa.Function, args []Val, where string) Val {
		return e.mutexOp(st, args[0], true, where)
	}
	stubs["(*sync.Mutex).Unlock"] = func(e *Exec, st *State, fn *ssa.Function, args []Val, where string) Val {
		return e.mutexOp(st, args[0], false, where)
	}
}

// mutexOp models sync.Mutex as a ghost boolean stored in the first field cell
// (state int32): 1 = held.
func (e *Exec) mutexOp(st *State, recv Val, lock bool, where string) Val {
	p := e.ptr(st, recv, where)
	if p == nil {
		return nil
	}
	cell := &Ptr{Obj: p.Obj, Path: appendStep(p.Path, Step{Field: 0})}
	cur := e.term(e.load(st, cell, where), "mutex state")
	held := e.S.Eq(cur, e.S.Int(1))
	e.quietStore = true
	defer func() { e.quietStore = false }()
	if lock {
		e.abortIf(st, held, "deadlock", where)
		e.store(st, cell, e.S.Int(1), where)
		if _, ok := st.Mem[ghostHeld]; ok {
			st.Mem[ghostHeld] = e.S.True
		}
	} else {
		e.abortIf(st, e.S.Not(held), "unlock-unlocked", where)
		e.store(st, cell, e.S.Int(0), where)
		if _, ok := st.Mem[ghostHeld]; ok {
			st.Mem[ghostHeld] = e.S.False
		}
	}
	e.Outs = append(e.Outs, OutEvent{Guard: st.G, Chan: map[bool]string{true: "lock", false: "unlock"}[lock] + "@" + where})
	return nil
}

// parseInt: decimal parse of a string whose bytes may be symbolic.
// bits>0: signed of that size; bits<0: unsigned. Returns (value, error iface).
func (e *Exec) parseInt(st *State, sv Val, bits int, where string) (Val, Val) {
	s := e.S
	var it types.Type = types.Typ[types.Int64]
	if bits < 0 {
		it = types.Typ[types.Uint64]
	}
	type alt struct {
		val *Term
		ok  *Term
	}
	res := e.strMap(sv, func(x *StrV) Val {
		if x.Sym == nil {
			if name, kind, ok := numToken(x.Conc); ok && kind == "i" {
				// numeric token (vIntText): the decimal text of a harness input
				v := e.Input(name, "int", types.Typ[types.Int])
				return TupleV{e.convert(st, v, types.Typ[types.Int], it, where), s.True}
			}
			var v int64
			var err error
			if bits < 0 {
				var u uint64
				u, err = strconv.ParseUint(x.Conc, 10, -bits)
				v = int64(u)
			} else {
				v, err = strconv.ParseInt(x.Conc, 10, bits)
			}
			return TupleV{e.F.IntConst(big.NewInt(v), it), s.Bool(err == nil)}
		}
		bs := x.Sym
		if len(bs) == 0 || len(bs) > 12 {
			return TupleV{e.F.IntConst(big.NewInt(0), it), s.False}
		}
		// optional sign only when first byte concrete
		neg := false
		start := 0
		if k, ok := bs[0].ConstInt(); ok && (k == '-' || k == '+') && bits > 0 {
			neg = k == '-'
			start = 1
		}
		ok := s.Bool(start < len(bs))
		val := s.Int(0)
		for _, b := range bs[start:] {
			isDigit := s.And(s.Le(s.Int('0'), b), s.Le(b, s.Int('9')))
			ok = s.And(ok, isDigit)
			val = s.Add(s.Mul(val, s.Int(10)), s.Sub(b, s.Int('0')))
		}
		if neg {
			val = s.Neg(val)
		}
		val = s.Ite(ok, val, s.Int(0))
		return TupleV{e.F.FromIndexInt(val, it), ok}
	})
	tv, okc := res.(TupleV)
	if !okc {
		return &Poison{Why: "parseInt"}, &Poison{Why: "parseInt"}
	}
	okT := e.term(tv[1], "parse ok")
	var errv Val
	if okT.IsTrue() {
		errv = &IfaceV{}
	} else if okT.IsFalse() {
		errv = e.mkError(&StrV{Conc: "strconv: invalid syntax"})
	} else {
		errv = &IfaceIte{C: okT, A: &IfaceV{}, B: e.mkError(&StrV{Conc: "strconv: invalid syntax"}).(*IfaceV)}
	}
	return tv[0], errv
}

// parseFloatSym: strconv.ParseFloat on a byte-symbolic text of the shape [sign] digits [ '.' digits ] where sign
// and '.' are concrete bytes and every symbolic byte is read as a decimal digit: the parse succeeds iff all
// symbolic bytes are digits (and the concrete skeleton is a number); the value is the positional value (Real).
func (e *Exec) parseFloatSym(st *State, sv *StrV, where string) Val {
	s := e.S
	bs := sv.Sym
	bad := func() Val {
		return TupleV{e.F.FloatConst(0), e.mkError(&StrV{Conc: "strconv.ParseFloat: invalid syntax"})}
	}
	if e.F.FloatSort().K != KReal {
		e.unsupported(st, "ParseFloat on symbolic digits in bit-precise mode at "+where)
		return TupleV{&Poison{Why: "ParseFloat"}, &Poison{Why: "ParseFloat"}}
	}
	i := 0
	neg := false
	if len(bs) > 0 {
		if k, ok := bs[0].ConstInt(); ok && (k == '-' || k == '+') {
			neg = k == '-'
			i = 1
		}
	}
	ok := s.True
	val := s.Rat(big.NewRat(0, 1))
	digits, frac := 0, 0
	seenDot := false
	for ; i < len(bs); i++ {
		b := bs[i]
		if k, isC := b.ConstInt(); isC {
			if k == '.' && !seenDot {
				seenDot = true
				continue
			}
			if k < '0' || k > '9' {
				return bad()
			}
		} else {
			ok = s.And(ok, s.And(s.Le(s.Int('0'), b), s.Le(b, s.Int('9'))))
		}
		digits++
		if seenDot {
			frac++
		}
		val = s.Add(s.Mul(val, s.Rat(big.NewRat(10, 1))), s.ToReal(s.Sub(b, s.Int('0'))))
	}
	if digits == 0 {
		return bad()
	}
	scale := big.NewRat(1, 1)
	for k := 0; k < frac; k++ {
		scale.Mul(scale, big.NewRat(1, 10))
	}
	val = s.Mul(val, s.Rat(scale))
	if neg {
		val = s.Neg(val)
	}
	val = s.Ite(ok, val, s.Rat(big.NewRat(0, 1)))
	var errv Val
	switch {
	case ok.IsTrue():
		errv = &IfaceV{}
	default:
		errv = &IfaceIte{C: ok, A: &IfaceV{}, B: e.mkError(&StrV{Conc: "strconv.ParseFloat: invalid syntax"}).(*IfaceV)}
	}
	return TupleV{val, errv}
}

func (e *Exec) symStrFunc(st *State, name string, s *StrV, where string) Val {
	switch name {
	case "TrimSpace":
		// supported when no symbolic byte can be a space: add side condition
		for _, b := range s.Sym {
			if !b.IsConst() {
				e.side("nospace", st, e.S.And(e.S.Lt(e.S.Int(' '), b), e.S.Lt(b, e.S.Int(127))), where)
			}
		}
		bs := s.Sym
		isSp := func(t *Term) bool {
			k, ok := t.ConstInt()
			return ok && (k == ' ' || k == '\t' || k == '\n' || k == '\r')
		}
		for len(bs) > 0 && isSp(bs[0]) {
			bs = bs[1:]
		}
		for len(bs) > 0 && isSp(bs[len(bs)-1]) {
			bs = bs[:len(bs)-1]
		}
		return e.mkStr(bs)
	}
	e.unsupported(st, "strings."+name+" on symbolic string at "+where)
	return &Poison{Why: "strings." + name}
}

func (e *Exec) symStrPred(st *State, name string, args []Val, where string) Val {
	a, okA := args[0].(*StrV)
	b, okB := args[1].(*StrV)
	if okA && okB {
		ab, bb := e.strBytes(a), e.strBytes(b)
		switch name {
		case "HasPrefix":
			if len(bb) > len(ab) {
				return e.S.False
			}
			return e.strEq(e.mkStr(ab[:len(bb)]), b)
		case "HasSuffix":
			if len(bb) > len(ab) {
				return e.S.False
			}
			return e.strEq(e.mkStr(ab[len(ab)-len(bb):]), b)
		}
	}
	e.unsupported(st, "strings."+name+" on symbolic string at "+where)
	return &Poison{Why: "strings." + name}
}

// symSplit: split where separator bytes are concrete in the string (symbolic
// bytes are assumed not to equal the separator: side condition).
func (e *Exec) symSplit(st *State, sv, sepv Val, where string) Val {
	s, ok1 := sv.(*StrV)
	sep, ok2 := e.concStr(sepv)
	if !ok1 || !ok2 || len(sep) != 1 {
		e.unsupported(st, "strings.Split on symbolic operands at "+where)
		return &Poison{Why: "strings.Split"}
	}
	var parts []Val
	var cur []*Term
	for _, b := range e.strBytes(s) {
		if k, ok := b.ConstInt(); ok {
			if byte(k) == sep[0] {
				parts = append(parts, e.mkStr(cur))
				cur = nil
				continue
			}
		} else {
			e.side("nosep", st, e.S.Not(e.S.Eq(b, e.S.Int(int64(sep[0])))), where)
		}
		cur = append(cur, b)
	}
	parts = append(parts, e.mkStr(cur))
	return e.mkSlice(st, types.Typ[types.String], parts)
}

// ZeroResults returns the zero value(s) of fn's results (for "does nothing" stubs).
func (e *Exec) ZeroResults(fn *ssa.Function) Val {
	res := fn.Signature.Results()
	switch res.Len() {
	case 0:
		return nil
	case 1:
		return e.zeroVal(res.At(0).Type())
	}
	tv := make(TupleV, res.Len())
	for i := range tv {
		tv[i] = e.zeroVal(res.At(i).Type())
	}
	return tv
}

// NondetError returns an error value that is nil or non-nil depending on a boolean input.
func (e *Exec) NondetError(name string) Val {
	fails := e.Input(name, "bool", types.Typ[types.Bool])
	return &IfaceIte{C: fails, A: e.mkError(&StrV{Conc: "stubbed failure " + name}).(*IfaceV), B: &IfaceV{}}
}

// LogCall records a call of a stubbed function as an output event "call:<name>[:<tag of receiver>]".
func (e *Exec) LogCall(st *State, fn *ssa.Function, args []Val) {
	name := "call:" + fn.Name()
	if len(args) > 0 {
		if p, ok := args[0].(*Ptr); ok {
			if t, ok := e.Tags[p.Obj]; ok {
				name += ":" + t
			}
		}
	}
	e.Outs = append(e.Outs, OutEvent{Guard: st.G, Chan: name})
}

// FloatByArg: symbolic float named after the concrete string argument.
func (e *Exec) FloatByArg(prefix string, arg Val) Val {
	name, ok := e.concStr(arg)
	if !ok {
		panic(&UnsupportedErr{Msg: "float-by-arg stub needs a concrete text argument"})
	}
	return e.Input(prefix+"_"+strings.TrimSpace(name), "float", types.Typ[types.Float64])
}

// BoolNilPerCall: (fresh symbolic bool, nil error) for the k-th call.
func (e *Exec) BoolNilPerCall(prefix string) Val {
	e.stubCalls[prefix]++
	b := e.Input(fmt.Sprintf("%s_%d", prefix, e.stubCalls[prefix]), "bool", types.Typ[types.Bool])
	return TupleV{b, &IfaceV{}}
}

// BytesByArg: ([]byte{symbol named after the concrete string argument}, nil).
func (e *Exec) BytesByArg(st *State, prefix string, arg Val) Val {
	name, ok := e.concStr(arg)
	if !ok {
		panic(&UnsupportedErr{Msg: "bytes-by-arg stub needs a concrete text argument"})
	}
	b := e.Input(prefix+"_"+name, "byte", types.Typ[types.Uint8])
	return TupleV{e.mkSlice(st, types.Typ[types.Uint8], []Val{b}), &IfaceV{}}
}

// FreshFloatResults: all (float) results are symbolic inputs <prefix>_<call>_<k>.
func (e *Exec) FreshFloatResults(prefix string, fn *ssa.Function) Val {
	e.stubCalls[prefix]++
	res := fn.Signature.Results()
	tv := make(TupleV, res.Len())
	for i := range tv {
		tv[i] = e.Input(fmt.Sprintf("%s_%d_%d", prefix, e.stubCalls[prefix], i), "float", types.Typ[types.Float64])
	}
	if len(tv) == 1 {
		return tv[0]
	}
	return tv
}
