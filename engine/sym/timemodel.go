package sym

// time.Time for concrete calendar texts: time.Parse on concrete arguments is
// evaluated natively, the result is a concrete *TimeV whose calendar accessors
// are evaluated natively too. Symbolic date texts are unsupported (inconclusive).

import (
	"fmt"
	"math/big"
	"time"

	"golang.org/x/tools/go/ssa"
)

type TimeV struct{ T time.Time }

func (e *Exec) timeArg(st *State, v Val, where string) (time.Time, bool) {
	switch x := v.(type) {
	case *TimeV:
		return x.T, true
	case *Agg:
		// the zero time.Time (all fields lazily zero)
		for _, el := range x.Elems {
			if el != nil {
				if t, ok := el.(*Term); !ok || !t.IsConst() {
					e.unsupported(st, "time.Time built outside time.Parse at "+where)
					return time.Time{}, false
				}
			}
		}
		return time.Time{}, true
	case nil:
		return time.Time{}, true
	}
	e.unsupported(st, fmt.Sprintf("time.Time value %T at %s", v, where))
	return time.Time{}, false
}

func init() {
	if stubs == nil {
		stubs = map[string]stubFn{}
	}
	stubs["time.Parse"] = func(e *Exec, st *State, fn *ssa.Function, args []Val, where string) Val {
		a, ok := concArgs(e, args)
		if !ok {
			e.unsupported(st, "time.Parse on a symbolic text at "+where)
			return TupleV{&Poison{Why: "time.Parse"}, &Poison{Why: "time.Parse"}}
		}
		t, err := time.Parse(a[0], a[1])
		if err != nil {
			return TupleV{&TimeV{T: t}, e.mkError(&StrV{Conc: err.Error()})}
		}
		return TupleV{&TimeV{T: t}, &IfaceV{}}
	}
	stubs["time.Date"] = func(e *Exec, st *State, fn *ssa.Function, args []Val, where string) Val {
		var k [7]int
		for i := 0; i < 7; i++ {
			t, ok := args[i].(*Term)
			if !ok {
				e.unsupported(st, "time.Date argument at "+where)
				return &Poison{Why: "time.Date"}
			}
			v, okc := t.ConstInt()
			if !okc {
				e.unsupported(st, "time.Date with a symbolic argument at "+where)
				return &Poison{Why: "time.Date"}
			}
			k[i] = int(v)
		}
		return &TimeV{T: time.Date(k[0], time.Month(k[1]), k[2], k[3], k[4], k[5], k[6], time.UTC)}
	}
	intM := func(name string, f func(t time.Time) int64) {
		stubs["(time.Time)."+name] = func(e *Exec, st *State, fn *ssa.Function, args []Val, where string) Val {
			t, ok := e.timeArg(st, args[0], where)
			if !ok {
				return &Poison{Why: "time"}
			}
			return e.F.IntConst(big.NewInt(f(t)), resType(fn))
		}
	}
	intM("Year", func(t time.Time) int64 { return int64(t.Year()) })
	intM("YearDay", func(t time.Time) int64 { return int64(t.YearDay()) })
	intM("Day", func(t time.Time) int64 { return int64(t.Day()) })
	intM("Month", func(t time.Time) int64 { return int64(t.Month()) })
	intM("Weekday", func(t time.Time) int64 { return int64(t.Weekday()) })
	intM("Unix", func(t time.Time) int64 { return t.Unix() })
	stubs["(time.Time).IsZero"] = func(e *Exec, st *State, fn *ssa.Function, args []Val, where string) Val {
		t, ok := e.timeArg(st, args[0], where)
		if !ok {
			return &Poison{Why: "time"}
		}
		return e.S.Bool(t.IsZero())
	}
}
