package sym

import (
	"crypto/sha256"
	"fmt"
	"go/constant"
	"go/token"
	"go/types"
	"math/big"
	"sort"
	"strings"
	"time"

	"golang.org/x/tools/go/ssa"
)

// State is one merged symbolic state inside a function frame.
type State struct {
	G      *Term
	Mem    map[int]Val
	Regs   map[ssa.Value]Val
	Defers []deferRec
	// set by rangeNext for a map entry that is present only under this condition: the block
	// executor sends the complement straight back to the loop header (entry skipped)
	skipUnless *Term
}

type deferRec struct {
	call *ssa.CallCommon
	fn   Val
	args []Val
}

func (st *State) dead() bool { return st.G.IsFalse() }

func (st *State) fork() *State {
	n := &State{G: st.G, Mem: make(map[int]Val, len(st.Mem)), Regs: make(map[ssa.Value]Val, len(st.Regs))}
	for k, v := range st.Mem {
		n.Mem[k] = v
	}
	for k, v := range st.Regs {
		n.Regs[k] = v
	}
	n.Defers = append([]deferRec(nil), st.Defers...)
	return n
}

type Obligation struct {
	ID    string
	Guard *Term // path guard (includes assumptions)
	Cond  *Term // must hold under Guard
	Where string
}

type SideObl struct {
	Kind  string
	Guard *Term
	Cond  *Term
	Where string
}

type AbortRec struct {
	Kind  string
	Guard *Term
	Where string
	Msg   string
}

type CoverRec struct {
	ID    string
	Guard *Term
}

type Input struct {
	Name string
	Term *Term
	Kind string // int, float, bool, byte
}

type ObserveRec struct {
	Name  string
	Guard *Term
	Term  *Term
	Str   Val // string observation (vObserveStr); Term is nil
}

type OutEvent struct {
	Guard *Term
	Chan  string
	Text  Val
}

type UnsupportedErr struct{ Msg string }

func (u *UnsupportedErr) Error() string { return "unsupported: " + u.Msg }

type Exec struct {
	S    *Store
	F    Arith
	Prog *ssa.Program
	Pkg  *ssa.Package

	nextObj     int
	objType     map[int]types.Type
	globals     map[*ssa.Global]int
	libGlobals  map[int]bool
	DecSegs     bool // render %d of symbolic ints as decimal segments instead of digit bytes
	MaxSymLen   int
	CaptureMark int
	FeasCalls   int
	Tags        map[int]string // harness-given names of objects (vTag)
	stubCalls   map[string]int
	LockRules   []LockRule
	UFFresh     bool // math functions as fresh variables per site instead of uninterpreted functions
	ufFreshVars map[string]*Term
	Concrete    map[string]string // when set, inputs are these concrete values (interpreter replay)
	PruneIf     bool              // ask the solver at every symbolic branch whether each side is feasible
	Deadline    time.Time
	MaxTerms    int
	MaxIters    int // cap for loops whose continuation is decided concretely

	Obls     []Obligation
	Sides    []SideObl
	Aborts   []AbortRec
	Covers   []CoverRec
	Inputs   []Input
	inputBy  map[string]*Term
	Axioms   []*Term
	Outs     []OutEvent
	Unwinds  []SideObl
	Observes []ObserveRec

	axiomSeen map[string]bool
	ufSites   map[string][]*Term
	UFUsed    map[string]int

	Known map[string]bool // open known findings

	// two-run non-interference (see tworun.go)
	TwoRun       string // obligation id prefix; "" = off
	TwoRunOnly   bool   // keep only the two-run obligations of the instance
	ConcIdx        bool   // replace a symbolic array index by a constant when the path condition admits only one value (two solver calls per site, cached)
	concIdxMemo    map[[2]int]*Term
	RecvLimit      int // select model: total number of receives from non-result channels (default 2)
	selCount       int
	selEvents      []selEvent
	selTaken       map[[2]int]*Term
	mergeA, mergeB, mergeN *State
	InitIncomplete string // non-empty: the package initialiser could not be executed completely (reason)
	MapReverse   bool   // iterate maps with concrete keys in descending instead of ascending key order
	SymPrefix    string // prefix of input names (the "other run" gets its own inputs)
	SharedMax    int    // objects 1..SharedMax exist after package initialisation
	SharedWrites []SharedWrite
	fnStack      []*ssa.Function
	phase        int
	syncMaps     map[string]int
	quietStore   bool
	atomicStore  bool
	extraShared  map[int]bool
	recvVals     map[string]Val // values received by select cases (selectmodel.go)
	ghostKeys    map[string]int // sync.Once / sync.Pool ghost cells (ghostsync.go)
	ghostDefault map[int]Val

	Unwind  int
	Lenient bool // during package init: unsupported calls yield Poison

	finfo map[*ssa.Function]*FuncInfo

	// statistics
	BlocksExec int
	EdgesExec  int
	Merges     int
	FuncsSeen  map[string]string // name -> ssa hash
	depth      int
	fresh      int
	Stubs      map[string]int
	FloatSites map[string]string
	InitMem    map[int]Val // memory after package init
	userStub   UserStub
	// LemmaPoints: per math function, arguments at which the native value is
	// evaluated and asserted (with monotonicity) at every application site.
	LemmaPoints map[string][]float64
}

func NewExec(prog *ssa.Program, pkg *ssa.Package, mode string) *Exec {
	s := NewStore()
	e := &Exec{S: s, Prog: prog, Pkg: pkg,
		objType: map[int]types.Type{}, globals: map[*ssa.Global]int{}, libGlobals: map[int]bool{}, MaxSymLen: 16,
		inputBy: map[string]*Term{}, axiomSeen: map[string]bool{}, ufSites: map[string][]*Term{},
		UFUsed: map[string]int{}, Known: map[string]bool{}, Unwind: 40, MaxTerms: 3000000, MaxIters: 200000,
		finfo: map[*ssa.Function]*FuncInfo{}, FuncsSeen: map[string]string{}, Stubs: map[string]int{},
		FloatSites: map[string]string{}, LemmaPoints: map[string][]float64{}, Tags: map[int]string{}, stubCalls: map[string]int{}, ufFreshVars: map[string]*Term{}}
	switch mode {
	case "R", "":
		e.F = &ArithR{S: s}
	case "B":
		e.F = NewArithB(s)
	default:
		panic("unknown mode " + mode)
	}
	return e
}

func (e *Exec) freshReal(tag string) *Term {
	e.fresh++
	return e.S.Var(fmt.Sprintf("$fresh_%s_%d", tag, e.fresh), e.F.FloatSort())
}
func (e *Exec) freshVar(tag string, so Sort) *Term {
	e.fresh++
	return e.S.Var(fmt.Sprintf("$fresh_%s_%d", tag, e.fresh), so)
}

func (e *Exec) unsupported(st *State, msg string) {
	if e.Lenient {
		return
	}
	panic(&UnsupportedErr{Msg: msg})
}

func (e *Exec) side(kind string, st *State, cond *Term, where string) {
	if cond.IsTrue() || st.dead() {
		return
	}
	e.Sides = append(e.Sides, SideObl{Kind: kind, Guard: st.G, Cond: cond, Where: where})
}

// abortIf records an abort under cond and continues the state under !cond.
func (e *Exec) abortIf(st *State, cond *Term, kind, where string) {
	if cond.IsFalse() || st.dead() {
		return
	}
	g := e.S.And(st.G, cond)
	if !g.IsFalse() {
		e.Aborts = append(e.Aborts, AbortRec{Kind: kind, Guard: g, Where: where})
	}
	st.G = e.S.And(st.G, e.S.Not(cond))
}

func (e *Exec) abort(st *State, kind, where, msg string) {
	if st.dead() {
		return
	}
	e.Aborts = append(e.Aborts, AbortRec{Kind: kind, Guard: st.G, Where: where, Msg: msg})
	st.G = e.S.False
}

func (e *Exec) pos(p token.Pos) string {
	if !p.IsValid() {
		return "?"
	}
	ps := e.Prog.Fset.Position(p)
	f := ps.Filename
	if i := strings.LastIndex(f, "/"); i >= 0 {
		f = f[i+1:]
	}
	return fmt.Sprintf("%s:%d", f, ps.Line)
}

// ---- memory

func (e *Exec) newObj(st *State, t types.Type, v Val) int {
	e.nextObj++
	id := e.nextObj
	e.objType[id] = t
	st.Mem[id] = v
	return id
}

func (e *Exec) globalObj(st *State, g *ssa.Global) int {
	if id, ok := e.globals[g]; ok {
		if _, ok := st.Mem[id]; !ok {
			st.Mem[id] = e.zeroVal(e.objType[id])
		}
		return id
	}
	t := g.Type().(*types.Pointer).Elem()
	e.nextObj++
	id := e.nextObj
	e.objType[id] = t
	e.globals[g] = id
	st.Mem[id] = e.zeroVal(t)
	// library globals whose initialiser matters (library init functions are not executed)
	if g.Pkg != nil && g.Pkg != e.Pkg {
		switch g.Pkg.Pkg.Path() + "." + g.Name() {
		case "io.EOF":
			st.Mem[id] = e.mkError(&StrV{Conc: "EOF"})
		case "io.ErrUnexpectedEOF":
			st.Mem[id] = e.mkError(&StrV{Conc: "unexpected EOF"})
		}
	}
	e.libGlobals[id] = true
	return id
}

func (e *Exec) boundsCheck(st *State, idx *Term, n int, where string) {
	s := e.S
	ok := s.And(s.Le(s.Int(0), idx), s.Lt(idx, s.Int(int64(n))))
	e.abortIf(st, s.Not(ok), "bounds", where)
}

func (e *Exec) load(st *State, p *Ptr, where string) Val {
	if p.Obj == 0 {
		e.abort(st, "nil", where, "nil pointer dereference")
		return &Poison{Why: "nil deref"}
	}
	root, ok := st.Mem[p.Obj]
	if !ok {
		panic(fmt.Sprintf("object %d not in state at %s", p.Obj, where))
	}
	return e.loadPath(st, root, p.Path, where)
}

func (e *Exec) loadPath(st *State, v Val, path []Step, where string) Val {
	if len(path) == 0 {
		return v
	}
	a, ok := v.(*Agg)
	if !ok {
		if po, ok := v.(*Poison); ok {
			return po
		}
		panic(fmt.Sprintf("loadPath through %T at %s", v, where))
	}
	stp := path[0]
	if stp.Idx == nil {
		return e.loadPath(st, e.aggElem(a, stp.Field), path[1:], where)
	}
	if k, ok := stp.Idx.ConstInt(); ok {
		if k < 0 || int(k) >= len(a.Elems) {
			e.abort(st, "bounds", where, "index out of range")
			return &Poison{Why: "oob"}
		}
		return e.loadPath(st, e.aggElem(a, int(k)), path[1:], where)
	}
	e.boundsCheck(st, stp.Idx, len(a.Elems), where)
	if st.dead() {
		return &Poison{Why: "oob"}
	}
	lo, hi := e.idxRange(stp.Idx, len(a.Elems))
	var res Val
	if hi-lo > 64 {
		// large, mostly lazily-zero array: all nil elements share the zero value
		res = e.loadPath(st, e.zeroVal(elemType(a.Typ, 0)), path[1:], where)
		for j := hi; j >= lo; j-- {
			if a.Elems[j] == nil {
				continue
			}
			ev := e.loadPath(st, a.Elems[j], path[1:], where)
			res = e.mergeVal(e.S.Eq(stp.Idx, e.S.Int(int64(j))), ev, res)
		}
		return res
	}
	for j := hi; j >= lo; j-- {
		ev := e.loadPath(st, e.aggElem(a, j), path[1:], where)
		if res == nil {
			res = ev
		} else {
			res = e.mergeVal(e.S.Eq(stp.Idx, e.S.Int(int64(j))), ev, res)
		}
	}
	return res
}

// idxRange narrows the candidate range of a symbolic index using const-tree leaves.
func (e *Exec) idxRange(idx *Term, n int) (int, int) {
	if leaves(idx) > 0 {
		lo, hi := int64(1<<62), int64(-1<<62)
		var walk func(t *Term)
		walk = func(t *Term) {
			if t.Op == OpConst {
				v := t.I.Int64()
				if v < lo {
					lo = v
				}
				if v > hi {
					hi = v
				}
				return
			}
			walk(t.Args[1])
			walk(t.Args[2])
		}
		walk(idx)
		if lo < 0 {
			lo = 0
		}
		if hi > int64(n-1) {
			hi = int64(n - 1)
		}
		return int(lo), int(hi)
	}
	return 0, n - 1
}

func (e *Exec) store(st *State, p *Ptr, v Val, where string) {
	if p.Obj == 0 {
		e.abort(st, "nil", where, "nil pointer store")
		return
	}
	root, ok := st.Mem[p.Obj]
	if !ok {
		panic(fmt.Sprintf("object %d not in state at %s", p.Obj, where))
	}
	e.noteSharedWrite(st, p.Obj, where)
	st.Mem[p.Obj] = e.storePath(st, root, p.Path, v, where)
}

func (e *Exec) storePath(st *State, cur Val, path []Step, v Val, where string) Val {
	if len(path) == 0 {
		return v
	}
	a, ok := cur.(*Agg)
	if !ok {
		panic(fmt.Sprintf("storePath through %T at %s", cur, where))
	}
	stp := path[0]
	if stp.Idx == nil {
		return aggWith(a, stp.Field, e.storePath(st, e.aggElem(a, stp.Field), path[1:], v, where))
	}
	if k, ok := stp.Idx.ConstInt(); ok {
		if k < 0 || int(k) >= len(a.Elems) {
			e.abort(st, "bounds", where, "index out of range")
			return cur
		}
		return aggWith(a, int(k), e.storePath(st, e.aggElem(a, int(k)), path[1:], v, where))
	}
	e.boundsCheck(st, stp.Idx, len(a.Elems), where)
	if st.dead() {
		return cur
	}
	lo, hi := e.idxRange(stp.Idx, len(a.Elems))
	n := &Agg{Typ: a.Typ, Elems: make([]Val, len(a.Elems))}
	copy(n.Elems, a.Elems)
	for j := lo; j <= hi; j++ {
		old := e.aggElem(a, j)
		nv := e.storePath(st, old, path[1:], v, where)
		n.Elems[j] = e.mergeVal(e.S.Eq(stp.Idx, e.S.Int(int64(j))), nv, old)
	}
	return n
}

// ---- state merging

func (e *Exec) mergeStates(sts []*State) *State {
	if len(sts) == 1 {
		return sts[0]
	}
	acc := sts[0]
	for _, b := range sts[1:] {
		acc = e.merge2(acc, b)
	}
	return acc
}

func (e *Exec) merge2(a, b *State) *State {
	e.Merges++
	if a.dead() {
		return b
	}
	if b.dead() {
		return a
	}
	c := a.G
	n := &State{G: e.S.Or(a.G, b.G), Mem: make(map[int]Val, len(a.Mem)), Regs: make(map[ssa.Value]Val, len(a.Regs))}
	// slices that point to different backing arrays on the two sides are merged into a fresh array (see mergeSlices)
	pa, pb, pn := e.mergeA, e.mergeB, e.mergeN
	e.mergeA, e.mergeB, e.mergeN = a, b, n
	defer func() { e.mergeA, e.mergeB, e.mergeN = pa, pb, pn }()
	for k, va := range a.Mem {
		if vb, ok := b.Mem[k]; ok {
			n.Mem[k] = e.mergeVal(c, va, vb)
		} else if k <= ghostBase {
			n.Mem[k] = e.mergeVal(c, va, e.ghostDefault[k])
		} else {
			n.Mem[k] = va
		}
	}
	for k, vb := range b.Mem {
		if _, ok := a.Mem[k]; !ok {
			if k <= ghostBase {
				n.Mem[k] = e.mergeVal(c, e.ghostDefault[k], vb)
			} else {
				n.Mem[k] = vb
			}
		}
	}
	for k, va := range a.Regs {
		if vb, ok := b.Regs[k]; ok {
			n.Regs[k] = e.mergeVal(c, va, vb)
		} else {
			n.Regs[k] = va
		}
	}
	for k, vb := range b.Regs {
		if _, ok := a.Regs[k]; !ok {
			n.Regs[k] = vb
		}
	}
	if len(a.Defers) != len(b.Defers) {
		e.unsupported(a, "merge of states with different defer stacks")
	}
	n.Defers = a.Defers
	return n
}

// ---- loop forest

type Loop struct {
	Header   *ssa.BasicBlock
	Parent   *Loop
	Blocks   map[*ssa.BasicBlock]bool
	Order    []*ssa.BasicBlock
	children map[*ssa.BasicBlock]*Loop
}

type FuncInfo struct {
	Top    *Loop
	LoopOf map[*ssa.BasicBlock]*Loop
	RPO    map[*ssa.BasicBlock]int
	Hash   string
}

func (e *Exec) info(fn *ssa.Function) *FuncInfo {
	if fi, ok := e.finfo[fn]; ok {
		return fi
	}
	fi := &FuncInfo{LoopOf: map[*ssa.BasicBlock]*Loop{}, RPO: map[*ssa.BasicBlock]int{}}
	// RPO
	var post []*ssa.BasicBlock
	seen := map[*ssa.BasicBlock]bool{}
	var dfs func(b *ssa.BasicBlock)
	dfs = func(b *ssa.BasicBlock) {
		seen[b] = true
		for _, s := range b.Succs {
			if !seen[s] {
				dfs(s)
			}
		}
		post = append(post, b)
	}
	dfs(fn.Blocks[0])
	for i := range post {
		fi.RPO[post[len(post)-1-i]] = i
	}
	top := &Loop{Blocks: map[*ssa.BasicBlock]bool{}, children: map[*ssa.BasicBlock]*Loop{}}
	for b := range seen {
		top.Blocks[b] = true
	}
	loops := map[*ssa.BasicBlock]*Loop{}
	for b := range seen {
		for _, s := range b.Succs {
			if s.Dominates(b) { // back edge b -> s
				l := loops[s]
				if l == nil {
					l = &Loop{Header: s, Blocks: map[*ssa.BasicBlock]bool{s: true}, children: map[*ssa.BasicBlock]*Loop{}}
					loops[s] = l
				}
				// reverse reachability from b up to s
				work := []*ssa.BasicBlock{b}
				for len(work) > 0 {
					x := work[len(work)-1]
					work = work[:len(work)-1]
					if l.Blocks[x] {
						continue
					}
					l.Blocks[x] = true
					for _, p := range x.Preds {
						if seen[p] {
							work = append(work, p)
						}
					}
				}
			} else if fi.RPO[s] <= fi.RPO[b] {
				panic(&UnsupportedErr{Msg: "irreducible control flow in " + fn.String()})
			}
		}
	}
	var all []*Loop
	for _, l := range loops {
		all = append(all, l)
	}
	sort.Slice(all, func(i, j int) bool {
		if len(all[i].Blocks) != len(all[j].Blocks) {
			return len(all[i].Blocks) < len(all[j].Blocks)
		}
		return fi.RPO[all[i].Header] < fi.RPO[all[j].Header]
	})
	for i, l := range all {
		l.Parent = top
		for _, m := range all[i+1:] {
			if m.Blocks[l.Header] && m != l {
				l.Parent = m
				break
			}
		}
		l.Parent.children[l.Header] = l
	}
	for b := range seen {
		fi.LoopOf[b] = top
	}
	// innermost: assign from largest to smallest
	for i := len(all) - 1; i >= 0; i-- {
		for b := range all[i].Blocks {
			fi.LoopOf[b] = all[i]
		}
	}
	mkOrder := func(l *Loop) {
		for b := range l.Blocks {
			lo := fi.LoopOf[b]
			if lo == l || (lo.Parent == l && lo.Header == b) {
				l.Order = append(l.Order, b)
			}
		}
		sort.Slice(l.Order, func(i, j int) bool { return fi.RPO[l.Order[i]] < fi.RPO[l.Order[j]] })
	}
	mkOrder(top)
	for _, l := range all {
		mkOrder(l)
	}
	fi.Top = top
	// hash of SSA text
	var sb strings.Builder
	fn.WriteTo(&sb)
	fi.Hash = fmt.Sprintf("%x", sha256.Sum256([]byte(sb.String())))[:16]
	e.finfo[fn] = fi
	return fi
}

// ---- function execution

type frame struct {
	fn      *ssa.Function
	fi      *FuncInfo
	pend    map[*ssa.BasicBlock][]*State
	rets    []retRec
	symExit map[*Loop]bool // loops left (or continued) under a symbolic condition in the current iteration
}

type retRec struct {
	st   *State
	vals []Val
}

const maxDepth = 60

// CallFunction inlines fn. It consumes st (caller state) and returns the merged
// post-state (caller registers restored) and the result value.
func (e *Exec) CallFunction(st *State, fn *ssa.Function, args []Val, free []Val, where string) Val {
	if fn.Blocks == nil {
		e.unsupported(st, "call of function without body: "+fn.String()+" at "+where)
		st.G = e.poisonGuard(st)
		return &Poison{Why: "no body: " + fn.String()}
	}
	if e.depth > maxDepth {
		panic(&UnsupportedErr{Msg: "call depth exceeded at " + fn.String()})
	}
	e.depth++
	e.fnStack = append(e.fnStack, fn)
	defer func() { e.depth--; e.fnStack = e.fnStack[:len(e.fnStack)-1] }()
	fi := e.info(fn)
	e.FuncsSeen[fn.String()] = fi.Hash
	callerRegs := st.Regs
	callerDefers := st.Defers
	sub := &State{G: st.G, Mem: st.Mem, Regs: make(map[ssa.Value]Val, 64)}
	for i, p := range fn.Params {
		sub.Regs[p] = args[i]
	}
	for i, fv := range fn.FreeVars {
		sub.Regs[fv] = free[i]
	}
	fr := &frame{fn: fn, fi: fi, pend: map[*ssa.BasicBlock][]*State{}}
	fr.pend[fn.Blocks[0]] = []*State{sub}
	e.runLoop(fr, fi.Top)
	// merge returns
	if len(fr.rets) == 0 {
		st.G = e.S.False
		st.Regs = callerRegs
		st.Defers = callerDefers
		return &Poison{Why: "no return"}
	}
	var sts []*State
	nres := len(fr.rets[0].vals)
	for _, r := range fr.rets {
		// stash results in pseudo registers so merge handles them
		for i, v := range r.vals {
			r.st.Regs[resultKey(i)] = v
		}
		sts = append(sts, r.st)
	}
	m := e.mergeStates(sts)
	st.G = m.G
	st.Mem = m.Mem
	st.Regs = callerRegs
	st.Defers = callerDefers
	switch nres {
	case 0:
		return nil
	case 1:
		return m.Regs[resultKey(0)]
	}
	tv := make(TupleV, nres)
	for i := range tv {
		tv[i] = m.Regs[resultKey(i)]
	}
	return tv
}

func (e *Exec) poisonGuard(st *State) *Term { return st.G }

type resKey struct {
	ssa.Value
	i int
}

var resKeys = map[int]*resKey{}

func resultKey(i int) ssa.Value {
	if k, ok := resKeys[i]; ok {
		return k
	}
	k := &resKey{i: i}
	resKeys[i] = k
	return k
}

func (e *Exec) runLoop(fr *frame, L *Loop) {
	var entryG *Term
	symIters := 0
	for iter := 0; ; iter++ {
		if L.Header != nil {
			hs := fr.pend[L.Header]
			if len(hs) == 0 {
				return
			}
			var gs []*Term
			for _, h := range hs {
				gs = append(gs, h.G)
			}
			hg := e.S.Or(gs...)
			if iter == 0 {
				entryG = hg
			} else if hg != entryG && fr.symExit[L] {
				// only iterations whose continuation was decided symbolically count against the unwind bound
				symIters++
			}
			delete(fr.symExit, L)
			if symIters > e.Unwind || iter > e.MaxIters {
				// unwinding obligation: continuing must be infeasible
				e.Unwinds = append(e.Unwinds, SideObl{Kind: "unwind", Guard: hg, Cond: e.S.False,
					Where: fmt.Sprintf("%s loop@%s after %d iterations", fr.fn.Name(), e.pos(firstPos(L.Header)), iter)})
				delete(fr.pend, L.Header)
				return
			}
		}
		for _, b := range L.Order {
			if b != L.Header {
				if child, ok := L.children[b]; ok {
					e.runLoop(fr, child)
					continue
				}
			}
			sts := fr.pend[b]
			if len(sts) == 0 {
				continue
			}
			delete(fr.pend, b)
			st := e.mergeStates(sts)
			if st.dead() {
				continue
			}
			e.execBlock(fr, b, st)
		}
		if L.Header == nil {
			return
		}
	}
}

func firstPos(b *ssa.BasicBlock) token.Pos {
	for _, in := range b.Instrs {
		if in.Pos().IsValid() {
			return in.Pos()
		}
	}
	return token.NoPos
}

func (e *Exec) transfer(fr *frame, st *State, from, to *ssa.BasicBlock, occ int) {
	if st.dead() {
		return
	}
	e.EdgesExec++
	// find pred index: occ-th occurrence of from in to.Preds
	pi := -1
	cnt := 0
	for i, p := range to.Preds {
		if p == from {
			if cnt == occ {
				pi = i
				break
			}
			cnt++
		}
	}
	if pi < 0 {
		panic("edge not found")
	}
	var phis []*ssa.Phi
	var vals []Val
	for _, in := range to.Instrs {
		ph, ok := in.(*ssa.Phi)
		if !ok {
			break
		}
		phis = append(phis, ph)
		vals = append(vals, e.get(st, ph.Edges[pi]))
	}
	for i, ph := range phis {
		st.Regs[ph] = vals[i]
	}
	fr.pend[to] = append(fr.pend[to], st)
}

func (e *Exec) execBlock(fr *frame, b *ssa.BasicBlock, st *State) {
	e.BlocksExec++
	if e.BlocksExec%64 == 0 {
		if e.MaxTerms > 0 && e.S.NumTerms() > e.MaxTerms {
			panic(&UnsupportedErr{Msg: fmt.Sprintf("execution budget exceeded: %d terms", e.S.NumTerms())})
		}
		if !e.Deadline.IsZero() && time.Now().After(e.Deadline) {
			panic(&UnsupportedErr{Msg: "execution budget exceeded: time"})
		}
	}
	for _, in := range b.Instrs {
		if st.dead() {
			return
		}
		switch x := in.(type) {
		case *ssa.Phi:
			continue
		case *ssa.Jump:
			e.transfer(fr, st, b, b.Succs[0], 0)
			return
		case *ssa.If:
			c := e.get(st, x.Cond)
			ct, ok := c.(*Term)
			if !ok {
				panic(&UnsupportedErr{Msg: fmt.Sprintf("branch on %T (%v) at %s", c, c, e.pos(x.Pos()))})
			}
			occ1 := 0
			if b.Succs[0] == b.Succs[1] {
				occ1 = 1
			}
			if !ct.IsConst() {
				if e.implied(st.G, ct, 0) {
					ct = e.S.True
				} else if e.implied(st.G, e.S.Not(ct), 0) {
					ct = e.S.False
				}
			}
			if !ct.IsConst() && e.PruneIf {
				if !e.Feasible(e.S.And(st.G, ct)) {
					ct = e.S.False
				} else if !e.Feasible(e.S.And(st.G, e.S.Not(ct))) {
					ct = e.S.True
				}
			}
			if ct.IsTrue() {
				e.transfer(fr, st, b, b.Succs[0], 0)
			} else if ct.IsFalse() {
				e.transfer(fr, st, b, b.Succs[1], occ1)
			} else {
				// symbolic branch: note every enclosing loop for which it decides leaving vs staying
				for l := fr.fi.LoopOf[b]; l != nil && l.Header != nil; l = l.Parent {
					if l.Blocks[b.Succs[0]] != l.Blocks[b.Succs[1]] {
						if fr.symExit == nil {
							fr.symExit = map[*Loop]bool{}
						}
						fr.symExit[l] = true
					}
				}
				s2 := st.fork()
				st.G = e.S.And(st.G, ct)
				s2.G = e.S.And(s2.G, e.S.Not(ct))
				e.transfer(fr, st, b, b.Succs[0], 0)
				e.transfer(fr, s2, b, b.Succs[1], occ1)
			}
			return
		case *ssa.Return:
			vals := make([]Val, len(x.Results))
			for i, r := range x.Results {
				vals[i] = e.get(st, r)
			}
			fr.rets = append(fr.rets, retRec{st: st, vals: vals})
			return
		case *ssa.Panic:
			v := e.get(st, x.X)
			e.abort(st, "panic", e.pos(x.Pos()), e.describe(v))
			return
		default:
			e.execInstr(fr, st, in)
			if st.skipUnless != nil {
				pres := st.skipUnless
				st.skipUnless = nil
				if l := fr.fi.LoopOf[b]; l == nil || l.Header != b {
					panic(&UnsupportedErr{Msg: "range over a map with conditional entries outside a loop header at " + e.pos(in.Pos())})
				}
				s2 := st.fork()
				s2.G = e.S.And(s2.G, e.S.Not(pres))
				st.G = e.S.And(st.G, pres)
				if !s2.dead() {
					fr.pend[b] = append(fr.pend[b], s2)
				}
			}
		}
	}
}

// implied: syntactic check that guard g entails literal c.
func (e *Exec) implied(g, c *Term, depth int) bool {
	if g == c {
		return true
	}
	if depth > 3 {
		return false
	}
	switch g.Op {
	case OpAnd:
		for _, a := range g.Args {
			if a == c {
				return true
			}
		}
		for _, a := range g.Args {
			if a.Op == OpOr && e.implied(a, c, depth+1) {
				return true
			}
		}
	case OpOr:
		for _, a := range g.Args {
			if !e.implied(a, c, depth+1) {
				return false
			}
		}
		return true
	}
	return false
}

func (e *Exec) describe(v Val) string {
	switch x := v.(type) {
	case *IfaceV:
		if x.T == nil {
			return "nil"
		}
		return e.describe(x.V)
	case *StrV:
		if x.Sym == nil {
			return x.Conc
		}
		return "<symbolic string>"
	case *Term:
		return e.S.Show(x)
	}
	return fmt.Sprintf("%T", v)
}

// get evaluates an SSA operand.
func (e *Exec) get(st *State, v ssa.Value) Val {
	switch x := v.(type) {
	case *ssa.Const:
		return e.constVal(x)
	case *ssa.Global:
		return &Ptr{Obj: e.globalObj(st, x)}
	case *ssa.Function:
		return &FuncV{Fn: x}
	case *ssa.Builtin:
		return &Opaque{What: "builtin:" + x.Name()}
	}
	r, ok := st.Regs[v]
	if !ok {
		panic(fmt.Sprintf("register %s (%T) undefined in %v", v.Name(), v, v.Parent()))
	}
	return r
}

func (e *Exec) constVal(c *ssa.Const) Val {
	t := c.Type()
	if c.Value == nil {
		return e.zeroVal(t)
	}
	switch u := t.Underlying().(type) {
	case *types.Basic:
		switch {
		case u.Info()&types.IsBoolean != 0:
			return e.S.Bool(constant.BoolVal(c.Value))
		case u.Info()&types.IsInteger != 0:
			bi, ok := constant.Val(constant.ToInt(c.Value)).(*big.Int)
			if !ok {
				i64, _ := constant.Int64Val(constant.ToInt(c.Value))
				bi = big.NewInt(i64)
			}
			return e.F.IntConst(bi, t)
		case u.Info()&types.IsFloat != 0:
			f, _ := constant.Float64Val(c.Value)
			return e.F.FloatConst(f)
		case u.Info()&types.IsString != 0:
			return &StrV{Conc: constant.StringVal(c.Value)}
		}
	}
	panic(&UnsupportedErr{Msg: "constant of type " + t.String()})
}

func (e *Exec) term(v Val, what string) *Term {
	t, ok := v.(*Term)
	if !ok {
		if p, ok := v.(*Poison); ok {
			panic(&UnsupportedErr{Msg: "use of poisoned value (" + p.Why + ") in " + what})
		}
		panic(&UnsupportedErr{Msg: fmt.Sprintf("expected scalar, got %T in %s", v, what)})
	}
	return t
}
