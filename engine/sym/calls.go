package sym

import (
	"fmt"
	"go/types"
	"math/big"
	"strings"

	"golang.org/x/tools/go/ssa"
)

func (e *Exec) call(st *State, c *ssa.CallCommon, instr ssa.Value, where string) Val {
	args := make([]Val, len(c.Args))
	for i, a := range c.Args {
		args[i] = e.get(st, a)
	}
	if c.IsInvoke() {
		recv := e.get(st, c.Value)
		return e.invoke(st, c, recv, args, where)
	}
	if b, ok := c.Value.(*ssa.Builtin); ok {
		return e.builtin(st, b, c, args, where)
	}
	fn := e.get(st, c.Value)
	return e.callResolved(st, c, fn, args, instr, where)
}

func (e *Exec) invoke(st *State, c *ssa.CallCommon, recv Val, args []Val, where string) Val {
	switch r := recv.(type) {
	case *IfaceIte:
		// fork on the alternatives
		sa := st.fork()
		sa.G = e.S.And(sa.G, r.C)
		sb := st.fork()
		sb.G = e.S.And(sb.G, e.S.Not(r.C))
		va := e.invoke(sa, c, r.A, args, where)
		vb := e.invoke(sb, c, r.B, args, where)
		e.adoptMerged(st, sa, sb, va, vb)
		return st.Regs[resultKey(99)]
	case *IfaceV:
		if r.T == nil {
			e.abort(st, "nil", where, "method call on nil interface")
			return &Poison{Why: "nil iface"}
		}
		// stubs for interface method on known dynamic types
		if v, ok := e.ifaceStub(st, r, c.Method, args, where); ok {
			return v
		}
		m := e.Prog.LookupMethod(r.T, c.Method.Pkg(), c.Method.Name())
		if m == nil {
			e.unsupported(st, fmt.Sprintf("method %s not found on %s at %s", c.Method.Name(), r.T, where))
			return &Poison{Why: "method lookup"}
		}
		return e.callFn(st, m, append([]Val{r.V}, args...), nil, where)
	}
	if p, ok := recv.(*Poison); ok {
		e.unsupported(st, "invoke on poisoned interface ("+p.Why+") at "+where)
		return p
	}
	e.badVal(recv, "invoke at "+where)
	return nil
}

// adoptMerged merges two forked states (with result values) back into st.
func (e *Exec) adoptMerged(st, sa, sb *State, va, vb Val) {
	if va == nil {
		va = e.S.False
	}
	if vb == nil {
		vb = e.S.False
	}
	sa.Regs[resultKey(99)] = va
	sb.Regs[resultKey(99)] = vb
	var m *State
	switch {
	case sa.dead():
		m = sb
	case sb.dead():
		m = sa
	default:
		m = e.merge2(sa, sb)
	}
	st.G, st.Mem, st.Regs, st.Defers = m.G, m.Mem, m.Regs, m.Defers
}

func (e *Exec) callResolved(st *State, c *ssa.CallCommon, fnv Val, args []Val, instr ssa.Value, where string) Val {
	if c != nil && c.IsInvoke() {
		return e.invoke(st, c, fnv, args, where)
	}
	if op, ok := fnv.(*Opaque); ok && strings.HasPrefix(op.What, "builtin:") {
		return e.builtin(st, c.Value.(*ssa.Builtin), c, args, where)
	}
	fv, ok := fnv.(*FuncV)
	if !ok {
		if p, ok := fnv.(*Poison); ok {
			e.unsupported(st, "call of poisoned function value ("+p.Why+") at "+where)
			return p
		}
		e.badVal(fnv, "call at "+where)
	}
	if fv.Fn == nil {
		e.abort(st, "nil", where, "call of nil func")
		return &Poison{Why: "nil func"}
	}
	if fv.Recv != nil {
		args = append([]Val{fv.Recv}, args...)
	}
	return e.callFn(st, fv.Fn, args, fv.Free, where)
}

func (e *Exec) callFn(st *State, fn *ssa.Function, args []Val, free []Val, where string) Val {
	name := fn.String()
	if fn.Pkg != nil && fn.Pkg == e.Pkg {
		if h, ok := intrinsics[fn.Name()]; ok && fn.Signature.Recv() == nil {
			return h(e, st, fn, args, where)
		}
	}
	if h, ok := stubs[name]; ok {
		e.Stubs[name]++
		return h(e, st, fn, args, where)
	}
	if fn.Pkg != nil && fn.Pkg.Pkg.Path() == "math" && fn.Signature.Recv() == nil {
		var ts []*Term
		okAll := true
		for _, a := range args {
			t, ok := a.(*Term)
			if !ok {
				okAll = false
				break
			}
			ts = append(ts, t)
		}
		if okAll {
			if r, ok := e.F.Math(e, st, fn.Name(), ts, where); ok {
				e.Stubs[name]++
				return r
			}
		}
	}
	if e.userStub != nil {
		if v, ok := e.userStub(e, st, fn, args, where); ok {
			e.Stubs[name]++
			return v
		}
	}
	if fn.Blocks == nil || !e.inlineOK(fn) {
		if e.Lenient {
			return &Poison{Why: "external " + name}
		}
		panic(&UnsupportedErr{Msg: "call of unmodelled function " + name + " at " + where})
	}
	return e.CallFunction(st, fn, args, free, where)
}

func pkgPath(fn *ssa.Function) string {
	if fn.Pkg != nil {
		return fn.Pkg.Pkg.Path()
	}
	if fn.Parent() != nil {
		return pkgPath(fn.Parent())
	}
	if o := fn.Object(); o != nil && o.Pkg() != nil {
		return o.Pkg().Path()
	}
	return ""
}

// inlineOK: only code of the module under test is inlined; library code must
// be stubbed (library package initialisers are not executed, so their globals
// would be wrong).
func (e *Exec) inlineOK(fn *ssa.Function) bool {
	pp := pkgPath(fn)
	if fn.Pkg == e.Pkg || (fn.Parent() != nil && e.inlineOK(fn.Parent())) {
		return true
	}
	if strings.HasPrefix(pp, "github.com/zalf-rpm/Hermes2Go") {
		return true
	}
	return InlineAllow[fn.String()]
}

// InlineAllow lists library functions that are pure and global-free.
var InlineAllow = map[string]bool{
	"sort.SearchInts": true, "sort.Search": true, "sort.SearchFloat64s": true,
	"sort.SearchInts$1": true, "sort.SearchFloat64s$1": true,
}

func (e *Exec) builtin(st *State, b *ssa.Builtin, c *ssa.CallCommon, args []Val, where string) Val {
	s := e.S
	switch b.Name() {
	case "len":
		switch x := args[0].(type) {
		case *StrV, *StrIte:
			return e.F.FromIndexInt(e.strLenT(x), types.Typ[types.Int])
		case *SliceV:
			return e.F.FromIndexInt(x.Len, types.Typ[types.Int])
		case *MapV:
			if x.Obj == 0 {
				return e.F.IntConst(big.NewInt(0), types.Typ[types.Int])
			}
			md := st.Mem[x.Obj].(*MapData)
			cnt := e.S.Int(0)
			for i := range md.Keys {
				cnt = e.S.Add(cnt, e.S.Ite(e.pres(md, i), e.S.Int(1), e.S.Int(0)))
			}
			return e.F.FromIndexInt(cnt, types.Typ[types.Int])
		case *Agg:
			return e.F.IntConst(big.NewInt(int64(len(x.Elems))), types.Typ[types.Int])
		case *Ptr:
			at := c.Args[0].Type().Underlying().(*types.Pointer).Elem().Underlying().(*types.Array)
			return e.F.IntConst(big.NewInt(at.Len()), types.Typ[types.Int])
		}
	case "cap":
		switch x := args[0].(type) {
		case *SliceV:
			return e.F.IntConst(big.NewInt(int64(x.Cap)), types.Typ[types.Int])
		}
	case "append":
		return e.appendOp(st, args[0], args[1], c, where)
	case "copy":
		dst, ok1 := args[0].(*SliceV)
		if !ok1 {
			break
		}
		var srcElems []Val
		switch src := args[1].(type) {
		case *SliceV:
			n, ok := src.Len.ConstInt()
			if !ok {
				e.unsupported(st, "copy with symbolic length at "+where)
				return &Poison{Why: "copy"}
			}
			for i := 0; i < int(n); i++ {
				srcElems = append(srcElems, e.load(st, &Ptr{Obj: src.Obj, Path: appendStep(src.Path, Step{Idx: e.slIdx(src, e.S.Int(int64(i)))})}, where))
			}
		case *StrV:
			for _, bt := range e.strBytes(src) {
				srcElems = append(srcElems, bt)
			}
		default:
			e.unsupported(st, "copy source at "+where)
			return &Poison{Why: "copy"}
		}
		dn, ok := dst.Len.ConstInt()
		if !ok {
			e.unsupported(st, "copy into symbolic-length slice at "+where)
			return &Poison{Why: "copy"}
		}
		n := len(srcElems)
		if int(dn) < n {
			n = int(dn)
		}
		for i := 0; i < n; i++ {
			e.store(st, &Ptr{Obj: dst.Obj, Path: appendStep(dst.Path, Step{Idx: e.slIdx(dst, e.S.Int(int64(i)))})}, srcElems[i], where)
		}
		return e.F.IntConst(big.NewInt(int64(n)), types.Typ[types.Int])
	case "delete":
		mv, md := e.mapData(st, args[0], where)
		if md == nil {
			return nil
		}
		e.noteSharedWrite(st, mv.Obj, where)
		nd := &MapData{Typ: md.Typ}
		for i, k := range md.Keys {
			eq := e.keyEq(k, args[1])
			if eq.IsTrue() {
				continue
			}
			nd.Keys = append(nd.Keys, k)
			nd.Vals = append(nd.Vals, md.Vals[i])
			nd.Pres = append(nd.Pres, e.S.And(e.pres(md, i), e.S.Not(eq)))
		}
		st.Mem[mv.Obj] = nd
		return nil
	case "print", "println":
		return nil
	case "min", "max":
		acc := e.term(args[0], "min/max")
		isF := isFloat(c.Args[0].Type())
		for _, a := range args[1:] {
			t := e.term(a, "min/max")
			var lt *Term
			if isF {
				lt = e.F.FloatCmp(tokLSS, t, acc)
			} else {
				lt = e.F.IntCmp(tokLSS, t, acc, c.Args[0].Type())
			}
			if b.Name() == "min" {
				acc = s.Ite(lt, t, acc)
			} else {
				acc = s.Ite(lt, acc, t)
			}
		}
		return acc
	case "recover":
		return &IfaceV{}
	case "close":
		return nil
	}
	e.unsupported(st, "builtin "+b.Name()+" at "+where)
	return &Poison{Why: "builtin " + b.Name()}
}

func (e *Exec) appendOp(st *State, a0, a1 Val, c *ssa.CallCommon, where string) Val {
	s := e.S
	dst, ok := a0.(*SliceV)
	if !ok {
		e.badVal(a0, "append at "+where)
	}
	var add []Val
	switch src := a1.(type) {
	case *SliceV:
		n, ok := src.Len.ConstInt()
		if !ok {
			e.unsupported(st, "append of symbolic-length slice at "+where)
			return &Poison{Why: "append"}
		}
		for i := 0; i < int(n); i++ {
			add = append(add, e.load(st, &Ptr{Obj: src.Obj, Path: appendStep(src.Path, Step{Idx: e.slIdx(src, e.S.Int(int64(i)))})}, where))
		}
	case *StrV:
		for _, bt := range e.strBytes(src) {
			add = append(add, bt)
		}
	default:
		e.badVal(a1, "append source at "+where)
	}
	et := dst.Elem
	if et == nil {
		et = c.Args[0].Type().Underlying().(*types.Slice).Elem()
	}
	if len(add) == 0 {
		return dst
	}
	dn, ok := dst.Len.ConstInt()
	if !ok {
		// symbolic length (a slice that was appended to under a condition): the result is a fresh array;
		// position j holds the old element when j < len, the (j-len)-th new element after that
		if dst.OffT != nil || dst.Off != 0 || len(dst.Path) != 0 || dst.Obj == 0 {
			e.unsupported(st, "append to symbolic-length slice (offset/nil) at "+where)
			return &Poison{Why: "append"}
		}
		lo, hi := e.idxRange(dst.Len, dst.Cap+1)
		ncap := hi + len(add)
		elems := make([]Val, ncap)
		for j := 0; j < ncap; j++ {
			var v Val
			for L := hi; L >= lo; L-- {
				var cand Val
				switch {
				case j < L:
					cand = e.load(st, &Ptr{Obj: dst.Obj, Path: []Step{{Idx: e.S.Int(int64(j))}}}, where)
				case j-L < len(add):
					cand = add[j-L]
				default:
					cand = e.zeroVal(et)
				}
				if v == nil {
					v = cand
				} else {
					v = e.mergeVal(s.Eq(dst.Len, s.Int(int64(L))), cand, v)
				}
			}
			elems[j] = v
		}
		at := types.NewArray(et, int64(ncap))
		id := e.newObj(st, at, &Agg{Typ: at, Elems: elems})
		return &SliceV{Obj: id, Len: s.Add(dst.Len, s.Int(int64(len(add)))), Cap: ncap, Elem: et}
	}
	n := int(dn)
	if dst.OffT != nil {
		e.unsupported(st, "append to a slice with symbolic offset at "+where)
		return &Poison{Why: "append"}
	}
	if dst.Obj != 0 && n+len(add) <= dst.Cap {
		for i, v := range add {
			e.store(st, &Ptr{Obj: dst.Obj, Path: appendStep(dst.Path, Step{Idx: e.slIdx(dst, e.S.Int(int64(n+i)))})}, v, where)
		}
		return &SliceV{Obj: dst.Obj, Path: dst.Path, Off: dst.Off, Len: s.Int(int64(n + len(add))), Cap: dst.Cap, Elem: et}
	}
	ncap := n + len(add)
	if ncap < 2*dst.Cap {
		ncap = 2 * dst.Cap
	}
	if ncap < 4 {
		ncap = 4
	}
	elems := make([]Val, ncap)
	for i := 0; i < n; i++ {
		elems[i] = e.load(st, &Ptr{Obj: dst.Obj, Path: appendStep(dst.Path, Step{Idx: e.slIdx(dst, e.S.Int(int64(i)))})}, where)
	}
	for i, v := range add {
		elems[n+i] = v
	}
	at := types.NewArray(et, int64(ncap))
	id := e.newObj(st, at, &Agg{Typ: at, Elems: elems})
	return &SliceV{Obj: id, Len: s.Int(int64(n + len(add))), Cap: ncap, Elem: et}
}

// ---- slices <-> Go values helpers for stubs

func (e *Exec) sliceElems(st *State, v Val, where string) []Val {
	sl, ok := v.(*SliceV)
	if !ok {
		e.badVal(v, "slice elems at "+where)
	}
	n, ok := sl.Len.ConstInt()
	if !ok {
		panic(&UnsupportedErr{Msg: "symbolic-length slice in stub at " + where})
	}
	out := make([]Val, n)
	for i := range out {
		out[i] = e.load(st, &Ptr{Obj: sl.Obj, Path: appendStep(sl.Path, Step{Idx: e.slIdx(sl, e.S.Int(int64(i)))})}, where)
	}
	return out
}

func (e *Exec) mkSlice(st *State, et types.Type, elems []Val) *SliceV {
	at := types.NewArray(et, int64(len(elems)))
	id := e.newObj(st, at, &Agg{Typ: at, Elems: elems})
	return &SliceV{Obj: id, Len: e.S.Int(int64(len(elems))), Cap: len(elems), Elem: et}
}

func (e *Exec) concStr(v Val) (string, bool) {
	switch x := v.(type) {
	case *StrV:
		if x.Sym == nil {
			return x.Conc, true
		}
	}
	return "", false
}
