package sym

import (
	"fmt"
	"os"
	"strings"
	"go/types"
	"math/big"
	"sort"

	"golang.org/x/tools/go/ssa"
)

// Val is one of: *Term, *Ptr, *SliceV, *StrV, *StrIte, *Agg, *MapV, *FuncV,
// *IfaceV, TupleV, *Poison, *Opaque.
type Val interface{}

type Step struct {
	Field int   // struct field index (when Idx == nil)
	Idx   *Term // array index (Int-sorted term) when non-nil
}

type Ptr struct {
	Obj  int // 0 = nil pointer
	Path []Step
}

type SliceV struct {
	Obj  int // 0 = nil slice
	Path []Step
	Off  int
	OffT *Term // additional symbolic offset (nil = 0)
	Len  *Term
	Cap  int
	Elem types.Type
}

// StrV: concrete string when Sym == nil, else a sequence of byte terms (Int sort, 0..255).
type StrV struct {
	Conc string
	Sym  []*Term
	Segs []Seg // segment form: concrete text and decimal renderings of int terms
}

// Seg is a piece of a segment string: literal text, or the plain decimal
// rendering (%d) of a non-negative integer term.
type Seg struct {
	Text string
	Dec  *Term
}

func (e *Exec) mkSegs(in []Seg) *StrV {
	var out []Seg
	for _, sg := range in {
		if sg.Dec != nil {
			if k, ok := sg.Dec.ConstInt(); ok {
				sg = Seg{Text: fmt.Sprintf("%d", k)}
			}
		}
		if sg.Dec == nil {
			if sg.Text == "" {
				continue
			}
			if n := len(out); n > 0 && out[n-1].Dec == nil {
				out[n-1].Text += sg.Text
				continue
			}
		}
		out = append(out, sg)
	}
	if len(out) == 0 {
		return &StrV{}
	}
	if len(out) == 1 && out[0].Dec == nil {
		return &StrV{Conc: out[0].Text}
	}
	return &StrV{Segs: out}
}

func (e *Exec) segsOf(s *StrV) []Seg {
	if s.Segs != nil {
		return s.Segs
	}
	if s.Sym != nil {
		panic(&UnsupportedErr{Msg: "mixing byte-symbolic and segment strings"})
	}
	if s.Conc == "" {
		return nil
	}
	return []Seg{{Text: s.Conc}}
}

type StrIte struct {
	C    *Term
	A, B Val // StrV / StrIte
	// Canon: a chain StrIte(c1,t1,StrIte(c2,t2,...tn)) over distinct concrete texts (sorted) whose
	// conditions are mutually exclusive; merges of such values stay linear in the number of texts
	Canon bool
}

// Agg is an immutable struct/array value. Elems[i] == nil means zero value.
type Agg struct {
	Typ   types.Type
	Elems []Val
}

type MapV struct {
	Obj int // 0 = nil map
}

// MapData is the memory content of a map object.
type MapData struct {
	Typ  *types.Map
	Keys []Val // keys (concrete, or symbolic scalar terms)
	Vals []Val
	Pres []*Term // presence condition per entry (nil entry = present)
}

type FuncV struct {
	Fn   *ssa.Function // nil = nil func
	Free []Val
	Recv Val // bound method receiver (when non-nil, prepended to args)
}

type IfaceV struct {
	T types.Type // nil = nil interface
	V Val
}

type TupleV []Val

type Poison struct{ Why string }

// Opaque is an uninterpreted runtime value (e.g. *os.File, sync.Mutex internals).
type Opaque struct{ What string }

func (e *Exec) ptrEq(a, b *Ptr) bool {
	if a.Obj != b.Obj || len(a.Path) != len(b.Path) {
		return false
	}
	for i := range a.Path {
		if a.Path[i].Field != b.Path[i].Field || a.Path[i].Idx != b.Path[i].Idx {
			return false
		}
	}
	return true
}

func pathEq(a, b []Step) bool {
	if len(a) != len(b) {
		return false
	}
	for i := range a {
		if a[i].Field != b[i].Field || a[i].Idx != b[i].Idx {
			return false
		}
	}
	return true
}

// ---- sorts of Go types

func isFloat(t types.Type) bool {
	b, ok := t.Underlying().(*types.Basic)
	return ok && b.Info()&types.IsFloat != 0
}
func isInteger(t types.Type) bool {
	b, ok := t.Underlying().(*types.Basic)
	return ok && b.Info()&types.IsInteger != 0
}
func isUnsigned(t types.Type) bool {
	b, ok := t.Underlying().(*types.Basic)
	return ok && b.Info()&types.IsUnsigned != 0
}
func isBoolean(t types.Type) bool {
	b, ok := t.Underlying().(*types.Basic)
	return ok && b.Info()&types.IsBoolean != 0
}
func isString(t types.Type) bool {
	b, ok := t.Underlying().(*types.Basic)
	return ok && b.Info()&types.IsString != 0
}

func intBits(t types.Type) int {
	b := t.Underlying().(*types.Basic)
	switch b.Kind() {
	case types.Int8, types.Uint8:
		return 8
	case types.Int16, types.Uint16:
		return 16
	case types.Int32, types.Uint32:
		return 32
	}
	return 64
}

// ---- zero values

func (e *Exec) zeroVal(t types.Type) Val {
	switch u := t.Underlying().(type) {
	case *types.Basic:
		switch {
		case u.Info()&types.IsBoolean != 0:
			return e.S.False
		case u.Info()&types.IsInteger != 0:
			return e.F.IntConst(new(big.Int), t)
		case u.Info()&types.IsFloat != 0:
			return e.F.FloatConst(0)
		case u.Info()&types.IsString != 0:
			return &StrV{}
		case u.Kind() == types.UnsafePointer:
			return &Ptr{}
		case u.Kind() == types.UntypedNil:
			return &Ptr{}
		}
	case *types.Pointer:
		return &Ptr{}
	case *types.Slice:
		return &SliceV{Len: e.S.Int(0), Elem: u.Elem()}
	case *types.Struct:
		return &Agg{Typ: t, Elems: make([]Val, u.NumFields())}
	case *types.Array:
		return &Agg{Typ: t, Elems: make([]Val, int(u.Len()))}
	case *types.Map:
		return &MapV{}
	case *types.Signature:
		return &FuncV{}
	case *types.Interface:
		return &IfaceV{}
	case *types.Chan:
		return &Opaque{What: "chan"}
	case *types.Tuple:
		tv := make(TupleV, u.Len())
		for i := range tv {
			tv[i] = e.zeroVal(u.At(i).Type())
		}
		return tv
	}
	return &Poison{Why: "zero of " + t.String()}
}

func elemType(t types.Type, i int) types.Type {
	switch u := t.Underlying().(type) {
	case *types.Struct:
		return u.Field(i).Type()
	case *types.Array:
		return u.Elem()
	}
	panic("elemType of " + t.String())
}

func (e *Exec) aggElem(a *Agg, i int) Val {
	if v := a.Elems[i]; v != nil {
		return v
	}
	return e.zeroVal(elemType(a.Typ, i))
}

func aggWith(a *Agg, i int, v Val) *Agg {
	n := &Agg{Typ: a.Typ, Elems: make([]Val, len(a.Elems))}
	copy(n.Elems, a.Elems)
	n.Elems[i] = v
	return n
}

// ---- merging

func sameVal(a, b Val) bool {
	if _, ok := a.(TupleV); ok {
		return false
	}
	if _, ok := b.(TupleV); ok {
		return false
	}
	return a == b
}

func (e *Exec) valEq(a, b Val) bool {
	if sameVal(a, b) {
		return true
	}
	switch x := a.(type) {
	case *Term:
		return false
	case *Ptr:
		y, ok := b.(*Ptr)
		return ok && e.ptrEq(x, y)
	case *SliceV:
		y, ok := b.(*SliceV)
		return ok && x.Obj == y.Obj && x.Off == y.Off && x.OffT == y.OffT && x.Cap == y.Cap && x.Len == y.Len && pathEq(x.Path, y.Path)
	case *StrV:
		y, ok := b.(*StrV)
		if !ok {
			return false
		}
		if x.Segs != nil || y.Segs != nil {
			if len(x.Segs) != len(y.Segs) {
				return false
			}
			for i := range x.Segs {
				if x.Segs[i] != y.Segs[i] {
					return false
				}
			}
			return true
		}
		if x.Sym == nil && y.Sym == nil {
			return x.Conc == y.Conc
		}
		xb, yb := e.strBytes(x), e.strBytes(y)
		if len(xb) != len(yb) {
			return false
		}
		for i := range xb {
			if xb[i] != yb[i] {
				return false
			}
		}
		return true
	case *MapV:
		y, ok := b.(*MapV)
		return ok && x.Obj == y.Obj
	case *FuncV:
		y, ok := b.(*FuncV)
		if !ok || x.Fn != y.Fn || len(x.Free) != len(y.Free) {
			return false
		}
		for i := range x.Free {
			if !e.valEq(x.Free[i], y.Free[i]) {
				return false
			}
		}
		if (x.Recv == nil) != (y.Recv == nil) {
			return false
		}
		return x.Recv == nil || e.valEq(x.Recv, y.Recv)
	case *IfaceV:
		y, ok := b.(*IfaceV)
		if !ok {
			return false
		}
		if x.T == nil || y.T == nil {
			return x.T == nil && y.T == nil
		}
		return types.Identical(x.T, y.T) && e.valEq(x.V, y.V)
	case *Opaque:
		y, ok := b.(*Opaque)
		return ok && x.What == y.What
	}
	return false
}

// mergeVal returns ite(c, a, b).
func (e *Exec) mergeVal(c *Term, a, b Val) Val {
	if sameVal(a, b) {
		return a
	}
	if c.IsTrue() {
		return a
	}
	if c.IsFalse() {
		return b
	}
	if a == nil || b == nil {
		// lazy zero against explicit: need a type; caller handles via mergeElem
		panic("mergeVal with lazy zero")
	}
	if _, ok := a.(*Poison); ok {
		return a
	}
	if _, ok := b.(*Poison); ok {
		return b
	}
	if _, ok := a.(*IfaceIte); ok {
		switch b.(type) {
		case *IfaceIte, *IfaceV:
			return &IfaceIte{C: c, A: a, B: b}
		}
	}
	if _, ok := b.(*IfaceIte); ok {
		if _, ok := a.(*IfaceV); ok {
			return &IfaceIte{C: c, A: a, B: b}
		}
	}
	switch x := a.(type) {
	case *Term:
		y, ok := b.(*Term)
		if !ok || x.Sort != y.Sort {
			return &Poison{Why: "merge of scalars of different sorts"}
		}
		return e.S.Ite(c, x, y)
	case *Agg:
		y, ok := b.(*Agg)
		if !ok || len(x.Elems) != len(y.Elems) {
			return &Poison{Why: "merge of different aggregates"}
		}
		n := &Agg{Typ: x.Typ, Elems: make([]Val, len(x.Elems))}
		for i := range x.Elems {
			xa, ya := x.Elems[i], y.Elems[i]
			if xa == ya {
				n.Elems[i] = xa
				continue
			}
			if xa == nil {
				xa = e.zeroVal(elemType(x.Typ, i))
			}
			if ya == nil {
				ya = e.zeroVal(elemType(x.Typ, i))
			}
			n.Elems[i] = e.mergeVal(c, xa, ya)
		}
		return n
	case *StrV, *StrIte:
		switch b.(type) {
		case *StrV, *StrIte:
		default:
			return &Poison{Why: "merge string with non-string"}
		}
		if e.valEq(a, b) {
			return a
		}
		if xs, ok := a.(*StrV); ok {
			if ys, ok := b.(*StrV); ok && (xs.Segs != nil || ys.Segs != nil) {
				sx, sy := e.segsOf(xs), e.segsOf(ys)
				same := len(sx) == len(sy)
				for i := 0; same && i < len(sx); i++ {
					if (sx[i].Dec == nil) != (sy[i].Dec == nil) || (sx[i].Dec == nil && sx[i].Text != sy[i].Text) {
						same = false
					}
				}
				if same {
					out := make([]Seg, len(sx))
					for i := range sx {
						if sx[i].Dec == nil {
							out[i] = sx[i]
						} else {
							out[i] = Seg{Dec: e.S.Ite(c, sx[i].Dec, sy[i].Dec)}
						}
					}
					return &StrV{Segs: out}
				}
				return &StrIte{C: c, A: a, B: b}
			}
		}
		if xs, ok := a.(*StrV); ok {
			if ys, ok := b.(*StrV); ok {
				if xs.Sym == nil && ys.Sym == nil && (strings.Contains(xs.Conc, "@i:") || strings.Contains(xs.Conc, "@f:") || strings.Contains(ys.Conc, "@i:") || strings.Contains(ys.Conc, "@f:")) {
					// texts that carry numeric tokens are never merged byte by byte (the token would be destroyed)
					if m := e.canonStrIte(c, a, b); m != nil {
						return m
					}
					return &StrIte{C: c, A: a, B: b}
				}
				xb, yb := e.strBytes(xs), e.strBytes(ys)
				if len(xb) == len(yb) {
					out := make([]*Term, len(xb))
					for i := range xb {
						out[i] = e.S.Ite(c, xb[i], yb[i])
					}
					return e.mkStr(out)
				}
			}
		}
		if m := e.canonStrIte(c, a, b); m != nil {
			return m
		}
		return &StrIte{C: c, A: a, B: b}
	case *SliceV:
		y, ok := b.(*SliceV)
		if ok && x.Obj == y.Obj && x.Off == y.Off && x.Cap == y.Cap && pathEq(x.Path, y.Path) {
			offT := x.OffT
			if x.OffT != y.OffT {
				xo, yo := x.OffT, y.OffT
				if xo == nil {
					xo = e.S.Int(0)
				}
				if yo == nil {
					yo = e.S.Int(0)
				}
				offT = e.S.Ite(c, xo, yo)
			}
			return &SliceV{Obj: x.Obj, Path: x.Path, Off: x.Off, OffT: offT, Cap: x.Cap, Elem: x.Elem, Len: e.S.Ite(c, x.Len, y.Len)}
		}
		if ok {
			if m := e.mergeSlices(c, x, y); m != nil {
				return m
			}
		}
		return &Poison{Why: "merge of different slices"}
	case TupleV:
		y, ok := b.(TupleV)
		if !ok || len(x) != len(y) {
			return &Poison{Why: "merge tuples"}
		}
		n := make(TupleV, len(x))
		for i := range x {
			n[i] = e.mergeVal(c, x[i], y[i])
		}
		return n
	case *IfaceV:
		y, ok := b.(*IfaceV)
		if ok && x.T != nil && y.T != nil && types.Identical(x.T, y.T) {
			return &IfaceV{T: x.T, V: e.mergeVal(c, x.V, y.V)}
		}
		if ok && e.valEq(a, b) {
			return a
		}
		if ok {
			return &IfaceIte{C: c, A: x, B: y}
		}
	}
	if x, ok := a.(*MapData); ok {
		if y, ok := b.(*MapData); ok {
			return e.mergeMapData(c, x, y)
		}
	}
	if x, ok := a.(*ScanObj); ok {
		if y, ok := b.(*ScanObj); ok && len(x.Lines) == len(y.Lines) && (len(x.Lines) == 0 || &x.Lines[0] == &y.Lines[0]) && x.N == y.N {
			return &ScanObj{Lines: x.Lines, N: x.N, Pos: e.S.Ite(c, x.Pos, y.Pos)}
		}
	}
	if e.valEq(a, b) {
		return a
	}
	return &Poison{Why: fmt.Sprintf("unmergeable values %T / %T", a, b)}
}

// mergeMapData merges two association lists: entries with the same key value are merged,
// the others are present only on their own side. At most one present entry equals any key
// on either side, and the two sides are exclusive, so the invariant of the list is kept.
func (e *Exec) mergeMapData(c *Term, a, b *MapData) Val {
	s := e.S
	n := &MapData{Typ: a.Typ}
	usedB := make([]bool, len(b.Keys))
	for i, k := range a.Keys {
		j := -1
		for jj, kb := range b.Keys {
			if !usedB[jj] && (sameVal(k, kb) || e.valEq(k, kb)) {
				j = jj
				break
			}
		}
		n.Keys = append(n.Keys, k)
		if j < 0 {
			n.Vals = append(n.Vals, a.Vals[i])
			n.Pres = append(n.Pres, s.And(c, e.pres(a, i)))
			continue
		}
		usedB[j] = true
		n.Vals = append(n.Vals, e.mergeVal(c, a.Vals[i], b.Vals[j]))
		n.Pres = append(n.Pres, s.Ite(c, e.pres(a, i), e.pres(b, j)))
	}
	for j, kb := range b.Keys {
		if usedB[j] {
			continue
		}
		n.Keys = append(n.Keys, kb)
		n.Vals = append(n.Vals, b.Vals[j])
		n.Pres = append(n.Pres, s.And(s.Not(c), e.pres(b, j)))
	}
	return n
}

// IfaceIte: interface value whose dynamic type depends on a condition
// (e.g. error that is nil on one path and non-nil on another).
type IfaceIte struct {
	C    *Term
	A, B Val // *IfaceV or *IfaceIte
}

// ---- strings

func (e *Exec) mkStr(bs []*Term) *StrV {
	conc := make([]byte, len(bs))
	for i, b := range bs {
		v, ok := b.ConstInt()
		if !ok {
			return &StrV{Sym: bs}
		}
		conc[i] = byte(v)
	}
	return &StrV{Conc: string(conc)}
}

func (e *Exec) strBytes(s *StrV) []*Term {
	if s.Segs != nil {
		panic(&UnsupportedErr{Msg: "byte access to a segment string (decimal rendering of a symbolic integer)"})
	}
	if s.Sym != nil {
		return s.Sym
	}
	out := make([]*Term, len(s.Conc))
	for i := 0; i < len(s.Conc); i++ {
		out[i] = e.S.Int(int64(s.Conc[i]))
	}
	return out
}

func strLen(s *StrV) int {
	if s.Segs != nil {
		panic(&UnsupportedErr{Msg: "length of a segment string"})
	}
	if s.Sym != nil {
		return len(s.Sym)
	}
	return len(s.Conc)
}

// strMap applies f to every alternative of a string value and merges.
func (e *Exec) strMap(v Val, f func(*StrV) Val) Val {
	switch x := v.(type) {
	case *StrV:
		return f(x)
	case *StrIte:
		return e.mergeVal(x.C, e.strMap(x.A, f), e.strMap(x.B, f))
	}
	return &Poison{Why: fmt.Sprintf("string op on %T", v)}
}

// strMapC is strMap with the condition under which each alternative is the actual value.
func (e *Exec) strMapC(v Val, cond *Term, f func(*StrV, *Term) Val) Val {
	switch x := v.(type) {
	case *StrV:
		return f(x, cond)
	case *StrIte:
		a := e.strMapC(x.A, e.S.And(cond, x.C), f)
		b := e.strMapC(x.B, e.S.And(cond, e.S.Not(x.C)), f)
		return e.mergeVal(x.C, a, b)
	}
	return &Poison{Why: fmt.Sprintf("string op on %T", v)}
}

func (e *Exec) strEq(a, b Val) *Term {
	switch x := a.(type) {
	case *StrIte:
		return e.S.Ite(x.C, e.strEq(x.A, b), e.strEq(x.B, b))
	}
	switch y := b.(type) {
	case *StrIte:
		return e.S.Ite(y.C, e.strEq(a, y.A), e.strEq(a, y.B))
	}
	x, y := a.(*StrV), b.(*StrV)
	if x.Sym == nil && y.Sym == nil && x.Segs == nil && y.Segs == nil {
		return e.S.Bool(x.Conc == y.Conc)
	}
	if x.Segs != nil || y.Segs != nil {
		sx, sy := e.segsOf(x), e.segsOf(y)
		if len(sx) != len(sy) {
			panic(&UnsupportedErr{Msg: "comparison of segment strings of different shape"})
		}
		var cs []*Term
		for i := range sx {
			if (sx[i].Dec == nil) != (sy[i].Dec == nil) {
				panic(&UnsupportedErr{Msg: "comparison of segment strings of different shape"})
			}
			if sx[i].Dec == nil {
				if sx[i].Text != sy[i].Text {
					return e.S.False
				}
			} else {
				cs = append(cs, e.S.Eq(sx[i].Dec, sy[i].Dec))
			}
		}
		return e.S.And(cs...)
	}
	xb, yb := e.strBytes(x), e.strBytes(y)
	if len(xb) != len(yb) {
		return e.S.False
	}
	cs := make([]*Term, len(xb))
	for i := range xb {
		cs[i] = e.S.Eq(xb[i], yb[i])
	}
	return e.S.And(cs...)
}

// strLess: lexicographic a < b
func (e *Exec) strLess(a, b Val) *Term {
	switch x := a.(type) {
	case *StrIte:
		return e.S.Ite(x.C, e.strLess(x.A, b), e.strLess(x.B, b))
	}
	switch y := b.(type) {
	case *StrIte:
		return e.S.Ite(y.C, e.strLess(a, y.A), e.strLess(a, y.B))
	}
	x, y := a.(*StrV), b.(*StrV)
	if x.Sym == nil && y.Sym == nil {
		return e.S.Bool(x.Conc < y.Conc)
	}
	xb, yb := e.strBytes(x), e.strBytes(y)
	// build from the end
	n := len(xb)
	if len(yb) < n {
		n = len(yb)
	}
	res := e.S.Bool(len(xb) < len(yb))
	for i := n - 1; i >= 0; i-- {
		res = e.S.Ite(e.S.Lt(xb[i], yb[i]), e.S.True, e.S.Ite(e.S.Lt(yb[i], xb[i]), e.S.False, res))
	}
	return res
}

// ---- map helpers

func (e *Exec) keyConc(v Val) (string, bool) {
	switch k := v.(type) {
	case *StrV:
		if k.Sym == nil {
			return "s:" + k.Conc, true
		}
	case *Term:
		if k.IsConst() {
			return "t:" + e.S.Show(k), true
		}
	case *IfaceV:
		if k.T == nil {
			return "nil", true
		}
		s, ok := e.keyConc(k.V)
		return k.T.String() + "/" + s, ok
	case *Agg:
		out := "{"
		for i := range k.Elems {
			s, ok := e.keyConc(e.aggElem(k, i))
			if !ok {
				return "", false
			}
			out += s + ";"
		}
		return out + "}", true
	}
	return "", false
}

func sortMapKeys(md *MapData, e *Exec) []int {
	idx := make([]int, len(md.Keys))
	for i := range idx {
		idx[i] = i
	}
	ks := make([]string, len(md.Keys))
	num := make([]int64, len(md.Keys))
	allNum := true
	for i, k := range md.Keys {
		ks[i], _ = e.keyConc(k)
		if t, ok := k.(*Term); ok {
			if v, ok := t.ConstInt(); ok {
				num[i] = v
				continue
			}
		}
		allNum = false
	}
	sort.Slice(idx, func(a, b int) bool {
		if allNum {
			return num[idx[a]] < num[idx[b]]
		}
		return ks[idx[a]] < ks[idx[b]]
	})
	return idx
}


// mergeSlices: two slices over different whole backing arrays (e.g. before / after an append that
// reallocated) become one slice over a fresh array whose elements are the conditional values. The
// copy gives up aliasing with the old arrays, which is exact for slices that are only appended to
// and read (the case in the code under test); slices into the middle of an array are not merged.
func (e *Exec) mergeSlices(c *Term, x, y *SliceV) Val {
	if e.mergeN == nil || x.OffT != nil || y.OffT != nil || x.Off != 0 || y.Off != 0 || len(x.Path) != 0 || len(y.Path) != 0 {
		return nil
	}
	et := x.Elem
	if et == nil {
		et = y.Elem
	}
	if et == nil {
		return nil
	}
	capN := x.Cap
	if x.Obj == 0 {
		capN = 0
	}
	if y.Obj != 0 && y.Cap > capN {
		capN = y.Cap
	}
	if capN == 0 {
		return &SliceV{Len: e.S.Int(0), Elem: et}
	}
	elemOf := func(st *State, sl *SliceV, i int) Val {
		if sl.Obj == 0 || i >= sl.Cap {
			return e.zeroVal(et)
		}
		ag, ok := st.Mem[sl.Obj].(*Agg)
		if !ok {
			return nil
		}
		v := e.aggElem(ag, i)
		if v == nil {
			v = e.zeroVal(et)
		}
		return v
	}
	elems := make([]Val, capN)
	for i := 0; i < capN; i++ {
		va, vb := elemOf(e.mergeA, x, i), elemOf(e.mergeB, y, i)
		if va == nil || vb == nil {
			return nil
		}
		elems[i] = e.mergeVal(c, va, vb)
	}
	at := types.NewArray(et, int64(capN))
	e.nextObj++
	id := e.nextObj
	e.objType[id] = at
	e.mergeN.Mem[id] = &Agg{Typ: at, Elems: elems}
	lx, ly := x.Len, y.Len
	if x.Obj == 0 {
		lx = e.S.Int(0)
	}
	if y.Obj == 0 {
		ly = e.S.Int(0)
	}
	return &SliceV{Obj: id, Len: e.S.Ite(c, lx, ly), Cap: capN, Elem: et}
}


// canonStrIte merges conditional concrete strings into the canonical chain form (nil: not applicable).
func (e *Exec) canonStrIte(c *Term, a, b Val) Val {
	if os.Getenv("VERIF_NOCANON") != "" {
		return nil
	}
	type alt struct {
		text string
		cond *Term
	}
	s := e.S
	leaves := func(v Val) ([]alt, bool) {
		var out []alt
		rest := s.True
		for {
			switch x := v.(type) {
			case *StrV:
				if x.Sym != nil || x.Segs != nil {
					return nil, false
				}
				return append(out, alt{x.Conc, rest}), true
			case *StrIte:
				if !x.Canon {
					return nil, false
				}
				t, ok := x.A.(*StrV)
				if !ok || t.Sym != nil || t.Segs != nil {
					return nil, false
				}
				out = append(out, alt{t.Conc, x.C})
				rest = s.And(rest, s.Not(x.C))
				v = x.B
			default:
				return nil, false
			}
		}
	}
	la, ok1 := leaves(a)
	lb, ok2 := leaves(b)
	if !ok1 || !ok2 {
		return nil
	}
	conds := map[string]*Term{}
	var texts []string
	add := func(l []alt, side *Term) {
		for _, x := range l {
			t := s.And(side, x.cond)
			if old, ok := conds[x.text]; ok {
				conds[x.text] = s.Or(old, t)
			} else {
				conds[x.text] = t
				texts = append(texts, x.text)
			}
		}
	}
	add(la, c)
	add(lb, s.Not(c))
	sort.Strings(texts)
	var keep []string
	for _, t := range texts {
		if !conds[t].IsFalse() {
			keep = append(keep, t)
		}
	}
	if len(keep) == 0 {
		return nil
	}
	var res Val = &StrV{Conc: keep[len(keep)-1]}
	for i := len(keep) - 2; i >= 0; i-- {
		res = &StrIte{C: conds[keep[i]], A: &StrV{Conc: keep[i]}, B: res, Canon: true}
	}
	return res
}
