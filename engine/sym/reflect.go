package sym

// A model of the subset of package reflect that the code under test uses to
// overlay configuration values (commandlineOverride) and that harnesses use to
// walk over all fields of a struct: a reflect.Value is (static type, value or
// address, settable flag). Everything outside the subset is "unsupported"
// (inconclusive); misuse that panics in the real library (SetFloat on an int
// field, Elem of a non-pointer ...) is an abort state of kind "panic".

import (
	"fmt"
	"go/token"
	"go/types"
	"math/big"
	"reflect"

	"golang.org/x/tools/go/ssa"
)

// ReflV is the executor's reflect.Value. T == nil is the invalid (zero) Value.
type ReflV struct {
	T        types.Type
	V        Val  // the held value when Addr == nil
	Addr     *Ptr // address of the held variable (addressable Value)
	Settable bool
}

func reflKind(t types.Type) int64 {
	switch u := t.Underlying().(type) {
	case *types.Basic:
		switch u.Kind() {
		case types.Bool:
			return 1
		case types.Int:
			return 2
		case types.Int8:
			return 3
		case types.Int16:
			return 4
		case types.Int32:
			return 5
		case types.Int64:
			return 6
		case types.Uint:
			return 7
		case types.Uint8:
			return 8
		case types.Uint16:
			return 9
		case types.Uint32:
			return 10
		case types.Uint64:
			return 11
		case types.Uintptr:
			return 12
		case types.Float32:
			return 13
		case types.Float64:
			return 14
		case types.Complex64:
			return 15
		case types.Complex128:
			return 16
		case types.String:
			return 24
		case types.UnsafePointer:
			return 26
		}
	case *types.Array:
		return 17
	case *types.Chan:
		return 18
	case *types.Signature:
		return 19
	case *types.Interface:
		return 20
	case *types.Map:
		return 21
	case *types.Pointer:
		return 22
	case *types.Slice:
		return 23
	case *types.Struct:
		return 25
	}
	return 0
}

func (e *Exec) reflArg(st *State, v Val, where string) *ReflV {
	if r, ok := v.(*ReflV); ok {
		return r
	}
	if _, ok := v.(*Agg); ok || v == nil {
		// zero reflect.Value
		return &ReflV{}
	}
	e.unsupported(st, fmt.Sprintf("reflect.Value of unknown origin (%T) at %s", v, where))
	return &ReflV{}
}

func (e *Exec) reflGet(st *State, r *ReflV, where string) Val {
	if r.Addr != nil {
		return e.load(st, r.Addr, where)
	}
	return r.V
}

func (e *Exec) reflPanic(st *State, where, msg string) Val {
	e.abort(st, "panic", where, "reflect: "+msg)
	return &Poison{Why: "reflect panic: " + msg}
}

func resType(fn *ssa.Function) types.Type { return fn.Signature.Results().At(0).Type() }

func init() {
	if stubs == nil {
		stubs = map[string]stubFn{}
	}
	reg := func(name string, f stubFn) { stubs[name] = f }
	reg("reflect.ValueOf", func(e *Exec, st *State, fn *ssa.Function, args []Val, where string) Val {
		iv, ok := args[0].(*IfaceV)
		if !ok {
			e.unsupported(st, fmt.Sprintf("reflect.ValueOf of %T at %s", args[0], where))
			return &ReflV{}
		}
		if iv.T == nil {
			return &ReflV{}
		}
		return &ReflV{T: iv.T, V: iv.V}
	})
	m := func(name string, f func(e *Exec, st *State, fn *ssa.Function, r *ReflV, args []Val, where string) Val) {
		reg("(reflect.Value)."+name, func(e *Exec, st *State, fn *ssa.Function, args []Val, where string) Val {
			return f(e, st, fn, e.reflArg(st, args[0], where), args[1:], where)
		})
	}
	m("IsValid", func(e *Exec, st *State, fn *ssa.Function, r *ReflV, args []Val, where string) Val {
		return e.S.Bool(r.T != nil)
	})
	m("Kind", func(e *Exec, st *State, fn *ssa.Function, r *ReflV, args []Val, where string) Val {
		k := int64(0)
		if r.T != nil {
			k = reflKind(r.T)
		}
		return e.F.IntConst(big.NewInt(k), resType(fn))
	})
	m("CanSet", func(e *Exec, st *State, fn *ssa.Function, r *ReflV, args []Val, where string) Val {
		return e.S.Bool(r.T != nil && r.Addr != nil && r.Settable)
	})
	m("CanAddr", func(e *Exec, st *State, fn *ssa.Function, r *ReflV, args []Val, where string) Val {
		return e.S.Bool(r.T != nil && r.Addr != nil)
	})
	m("IsNil", func(e *Exec, st *State, fn *ssa.Function, r *ReflV, args []Val, where string) Val {
		if r.T == nil {
			return e.reflPanic(st, where, "IsNil of invalid Value")
		}
		switch x := e.reflGet(st, r, where).(type) {
		case *Ptr:
			return e.S.Bool(x.Obj == 0)
		case *MapV:
			return e.S.Bool(x.Obj == 0)
		case *SliceV:
			return e.S.Bool(x.Obj == 0)
		case *IfaceV:
			return e.S.Bool(x.T == nil)
		case *FuncV:
			return e.S.Bool(x.Fn == nil)
		}
		return e.reflPanic(st, where, "IsNil of a non-nillable kind")
	})
	m("Elem", func(e *Exec, st *State, fn *ssa.Function, r *ReflV, args []Val, where string) Val {
		if r.T == nil {
			return e.reflPanic(st, where, "Elem of invalid Value")
		}
		pt, ok := r.T.Underlying().(*types.Pointer)
		if !ok {
			if _, isI := r.T.Underlying().(*types.Interface); isI {
				e.unsupported(st, "reflect Elem of an interface Value at "+where)
				return &ReflV{}
			}
			return e.reflPanic(st, where, "Elem of a non-pointer Value")
		}
		p, ok := e.reflGet(st, r, where).(*Ptr)
		if !ok {
			e.unsupported(st, "reflect Elem: pointer value not resolved at "+where)
			return &ReflV{}
		}
		if p.Obj == 0 {
			return &ReflV{}
		}
		return &ReflV{T: pt.Elem(), Addr: p, Settable: true}
	})
	m("NumField", func(e *Exec, st *State, fn *ssa.Function, r *ReflV, args []Val, where string) Val {
		if r.T != nil {
			if s, ok := r.T.Underlying().(*types.Struct); ok {
				return e.F.IntConst(big.NewInt(int64(s.NumFields())), types.Typ[types.Int])
			}
		}
		return e.reflPanic(st, where, "NumField of a non-struct Value")
	})
	field := func(e *Exec, st *State, r *ReflV, s *types.Struct, i int, where string) Val {
		f := s.Field(i)
		out := &ReflV{T: f.Type(), Settable: r.Settable && f.Exported()}
		if r.Addr != nil {
			out.Addr = &Ptr{Obj: r.Addr.Obj, Path: appendStep(r.Addr.Path, Step{Field: i})}
		} else {
			ag, ok := r.V.(*Agg)
			if !ok {
				e.unsupported(st, "reflect field of an unresolved struct value at "+where)
				return &ReflV{}
			}
			out.V = e.aggElem(ag, i)
		}
		return out
	}
	m("Field", func(e *Exec, st *State, fn *ssa.Function, r *ReflV, args []Val, where string) Val {
		if r.T != nil {
			if s, ok := r.T.Underlying().(*types.Struct); ok {
				k, okc := e.term(args[0], "Field").ConstInt()
				if !okc {
					e.unsupported(st, "reflect Field with a symbolic index at "+where)
					return &ReflV{}
				}
				if k < 0 || int(k) >= s.NumFields() {
					return e.reflPanic(st, where, "Field index out of range")
				}
				return field(e, st, r, s, int(k), where)
			}
		}
		return e.reflPanic(st, where, "Field of a non-struct Value")
	})
	m("FieldByName", func(e *Exec, st *State, fn *ssa.Function, r *ReflV, args []Val, where string) Val {
		if r.T == nil {
			return e.reflPanic(st, where, "FieldByName of invalid Value")
		}
		s, ok := r.T.Underlying().(*types.Struct)
		if !ok {
			return e.reflPanic(st, where, "FieldByName of a non-struct Value")
		}
		name, okc := e.concStr(args[0])
		if !okc {
			e.unsupported(st, "reflect FieldByName with a symbolic name at "+where)
			return &ReflV{}
		}
		for i := 0; i < s.NumFields(); i++ {
			if s.Field(i).Embedded() {
				e.unsupported(st, "reflect FieldByName on a struct with embedded fields at "+where)
				return &ReflV{}
			}
		}
		for i := 0; i < s.NumFields(); i++ {
			if s.Field(i).Name() == name {
				return field(e, st, r, s, i, where)
			}
		}
		return &ReflV{}
	})
	m("Addr", func(e *Exec, st *State, fn *ssa.Function, r *ReflV, args []Val, where string) Val {
		if r.T == nil || r.Addr == nil {
			return e.reflPanic(st, where, "Addr of an unaddressable Value")
		}
		return &ReflV{T: types.NewPointer(r.T), V: r.Addr}
	})
	m("Interface", func(e *Exec, st *State, fn *ssa.Function, r *ReflV, args []Val, where string) Val {
		if r.T == nil {
			return e.reflPanic(st, where, "Interface of invalid Value")
		}
		if types.IsInterface(r.T) {
			return e.reflGet(st, r, where)
		}
		return &IfaceV{T: r.T, V: e.reflGet(st, r, where)}
	})
	getter := func(name string, okKind func(k int64) bool, conv func(e *Exec, st *State, v Val, from, to types.Type, where string) Val) {
		m(name, func(e *Exec, st *State, fn *ssa.Function, r *ReflV, args []Val, where string) Val {
			if r.T == nil || !okKind(reflKind(r.T)) {
				if name == "String" {
					e.unsupported(st, "reflect String() of a non-string Value at "+where)
					return &StrV{}
				}
				return e.reflPanic(st, where, name+" of a Value of another kind")
			}
			return conv(e, st, e.reflGet(st, r, where), r.T, resType(fn), where)
		})
	}
	convTo := func(e *Exec, st *State, v Val, from, to types.Type, where string) Val {
		return e.convert(st, v, from.Underlying(), to, where)
	}
	same := func(e *Exec, st *State, v Val, from, to types.Type, where string) Val { return v }
	getter("Float", func(k int64) bool { return k == 13 || k == 14 }, convTo)
	getter("Int", func(k int64) bool { return k >= 2 && k <= 6 }, convTo)
	getter("Bool", func(k int64) bool { return k == 1 }, same)
	getter("String", func(k int64) bool { return k == 24 }, same)
	setter := func(name string, okKind func(k int64) bool, argT types.Type) {
		m(name, func(e *Exec, st *State, fn *ssa.Function, r *ReflV, args []Val, where string) Val {
			if r.T == nil || r.Addr == nil || !r.Settable {
				return e.reflPanic(st, where, name+" on an unsettable Value")
			}
			if !okKind(reflKind(r.T)) {
				return e.reflPanic(st, where, name+" on a Value of another kind")
			}
			v := args[0]
			if argT != nil {
				v = e.convert(st, v, argT, r.T.Underlying(), where)
			}
			e.store(st, r.Addr, v, where)
			return nil
		})
	}
	setter("SetFloat", func(k int64) bool { return k == 13 || k == 14 }, types.Typ[types.Float64])
	setter("SetInt", func(k int64) bool { return k >= 2 && k <= 6 }, types.Typ[types.Int64])
	setter("SetBool", func(k int64) bool { return k == 1 }, nil)
	setter("SetString", func(k int64) bool { return k == 24 }, nil)
	m("OverflowFloat", func(e *Exec, st *State, fn *ssa.Function, r *ReflV, args []Val, where string) Val {
		if r.T == nil {
			return e.reflPanic(st, where, "OverflowFloat of invalid Value")
		}
		switch reflKind(r.T) {
		case 14:
			return e.S.False
		case 13:
			e.unsupported(st, "reflect OverflowFloat on float32 at "+where)
			return e.S.False
		}
		return e.reflPanic(st, where, "OverflowFloat on a Value of another kind")
	})
	m("OverflowInt", func(e *Exec, st *State, fn *ssa.Function, r *ReflV, args []Val, where string) Val {
		if r.T == nil {
			return e.reflPanic(st, where, "OverflowInt of invalid Value")
		}
		k := reflKind(r.T)
		if k < 2 || k > 6 {
			return e.reflPanic(st, where, "OverflowInt on a Value of another kind")
		}
		if k == 2 || k == 6 {
			return e.S.False
		}
		bits := map[int64]uint{3: 8, 4: 16, 5: 32}[k]
		x := args[0]
		lo := e.F.IntConst(new(big.Int).Neg(new(big.Int).Lsh(big.NewInt(1), bits-1)), types.Typ[types.Int64])
		hi := e.F.IntConst(new(big.Int).Sub(new(big.Int).Lsh(big.NewInt(1), bits-1), big.NewInt(1)), types.Typ[types.Int64])
		a := e.term(e.binop(st, token.LSS, x, lo, types.Typ[types.Int64], types.Typ[types.Int64], where), "OverflowInt")
		b := e.term(e.binop(st, token.GTR, x, hi, types.Typ[types.Int64], types.Typ[types.Int64], where), "OverflowInt")
		return e.S.Or(a, b)
	})
}

// ---- reflect.Type: an interface value whose dynamic value is *ReflT

type ReflT struct{ T types.Type }

var reflTypeName = types.NewTypeName(token.NoPos, nil, "verifReflectType", nil)
var reflTypeDyn = types.NewNamed(reflTypeName, types.Typ[types.Int], nil)

func (e *Exec) mkReflType(t types.Type) Val {
	if t == nil {
		return &IfaceV{}
	}
	return &IfaceV{T: reflTypeDyn, V: &ReflT{T: t}}
}

// structFieldVal builds a reflect.StructField value (sf = the library's struct type).
func (e *Exec) structFieldVal(st *State, sf types.Type, f *types.Var, tag string, idx int) Val {
	s := sf.Underlying().(*types.Struct)
	ag := &Agg{Typ: sf, Elems: make([]Val, s.NumFields())}
	for i := 0; i < s.NumFields(); i++ {
		switch s.Field(i).Name() {
		case "Name":
			ag.Elems[i] = &StrV{Conc: f.Name()}
		case "PkgPath":
			pp := ""
			if !f.Exported() && f.Pkg() != nil {
				pp = f.Pkg().Path()
			}
			ag.Elems[i] = &StrV{Conc: pp}
		case "Type":
			ag.Elems[i] = e.mkReflType(f.Type())
		case "Tag":
			ag.Elems[i] = &StrV{Conc: tag}
		case "Index":
			ag.Elems[i] = e.mkSlice(st, types.Typ[types.Int], []Val{e.F.IntConst(big.NewInt(int64(idx)), types.Typ[types.Int])})
		case "Anonymous":
			ag.Elems[i] = e.S.Bool(f.Embedded())
		}
	}
	return ag
}

func (e *Exec) reflTypeMethod(st *State, rt *ReflT, m *types.Func, args []Val, where string) (Val, bool) {
	sig := m.Type().(*types.Signature)
	res0 := func() types.Type { return sig.Results().At(0).Type() }
	switch m.Name() {
	case "Kind":
		return e.F.IntConst(big.NewInt(reflKind(rt.T)), res0()), true
	case "Name":
		if n, ok := rt.T.(*types.Named); ok {
			return &StrV{Conc: n.Obj().Name()}, true
		}
		if b, ok := rt.T.(*types.Basic); ok {
			return &StrV{Conc: b.Name()}, true
		}
		return &StrV{}, true
	case "String":
		return &StrV{Conc: types.TypeString(rt.T, func(p *types.Package) string { return p.Name() })}, true
	case "Elem":
		switch u := rt.T.Underlying().(type) {
		case *types.Pointer:
			return e.mkReflType(u.Elem()), true
		case *types.Slice:
			return e.mkReflType(u.Elem()), true
		case *types.Array:
			return e.mkReflType(u.Elem()), true
		case *types.Map:
			return e.mkReflType(u.Elem()), true
		}
		return e.reflPanic(st, where, "Elem of a type without element"), true
	case "NumField":
		if s, ok := rt.T.Underlying().(*types.Struct); ok {
			return e.F.IntConst(big.NewInt(int64(s.NumFields())), types.Typ[types.Int]), true
		}
		return e.reflPanic(st, where, "NumField of a non-struct type"), true
	case "Field":
		s, ok := rt.T.Underlying().(*types.Struct)
		if !ok {
			return e.reflPanic(st, where, "Field of a non-struct type"), true
		}
		k, okc := e.term(args[0], "Type.Field").ConstInt()
		if !okc {
			e.unsupported(st, "reflect Type.Field with a symbolic index at "+where)
			return &Poison{Why: "Type.Field"}, true
		}
		if k < 0 || int(k) >= s.NumFields() {
			return e.reflPanic(st, where, "Field index out of range"), true
		}
		return e.structFieldVal(st, res0(), s.Field(int(k)), s.Tag(int(k)), int(k)), true
	case "FieldByName":
		s, ok := rt.T.Underlying().(*types.Struct)
		if !ok {
			return e.reflPanic(st, where, "FieldByName of a non-struct type"), true
		}
		name, okc := e.concStr(args[0])
		if !okc {
			e.unsupported(st, "reflect Type.FieldByName with a symbolic name at "+where)
			return &Poison{Why: "Type.FieldByName"}, true
		}
		for i := 0; i < s.NumFields(); i++ {
			if s.Field(i).Embedded() {
				e.unsupported(st, "reflect Type.FieldByName on a struct with embedded fields at "+where)
				return &Poison{Why: "Type.FieldByName"}, true
			}
		}
		for i := 0; i < s.NumFields(); i++ {
			if s.Field(i).Name() == name {
				return TupleV{e.structFieldVal(st, res0(), s.Field(i), s.Tag(i), i), e.S.True}, true
			}
		}
		return TupleV{e.zeroVal(res0()), e.S.False}, true
	}
	e.unsupported(st, "reflect.Type method "+m.Name()+" is not modelled at "+where)
	return &Poison{Why: "reflect.Type." + m.Name()}, true
}

func init() {
	stubs["reflect.TypeOf"] = func(e *Exec, st *State, fn *ssa.Function, args []Val, where string) Val {
		iv, ok := args[0].(*IfaceV)
		if !ok {
			e.unsupported(st, fmt.Sprintf("reflect.TypeOf of %T at %s", args[0], where))
			return &IfaceV{}
		}
		return e.mkReflType(iv.T)
	}
	stubs["(reflect.Value).Type"] = func(e *Exec, st *State, fn *ssa.Function, args []Val, where string) Val {
		r := e.reflArg(st, args[0], where)
		if r.T == nil {
			return e.reflPanic(st, where, "Type of invalid Value")
		}
		return e.mkReflType(r.T)
	}
	stubs["(reflect.StructField).IsExported"] = func(e *Exec, st *State, fn *ssa.Function, args []Val, where string) Val {
		// IsExported reports PkgPath == ""
		ag, ok := args[0].(*Agg)
		if !ok {
			panic(&UnsupportedErr{Msg: "StructField.IsExported on a non-struct value at " + where})
		}
		s := ag.Typ.Underlying().(*types.Struct)
		for i := 0; i < s.NumFields(); i++ {
			if s.Field(i).Name() == "PkgPath" {
				return e.strEq(e.aggElem(ag, i), &StrV{})
			}
		}
		panic(&UnsupportedErr{Msg: "StructField without PkgPath at " + where})
	}
	stubs["(reflect.StructTag).Get"] = func(e *Exec, st *State, fn *ssa.Function, args []Val, where string) Val {
		a, ok := concArgs(e, args)
		if !ok {
			e.unsupported(st, "StructTag.Get on a symbolic string at "+where)
			return &Poison{Why: "StructTag.Get"}
		}
		return &StrV{Conc: reflect.StructTag(a[0]).Get(a[1])}
	}
	stubs["(reflect.StructTag).Lookup"] = func(e *Exec, st *State, fn *ssa.Function, args []Val, where string) Val {
		a, ok := concArgs(e, args)
		if !ok {
			e.unsupported(st, "StructTag.Lookup on a symbolic string at "+where)
			return &Poison{Why: "StructTag.Lookup"}
		}
		v, found := reflect.StructTag(a[0]).Lookup(a[1])
		return TupleV{&StrV{Conc: v}, e.S.Bool(found)}
	}
}
