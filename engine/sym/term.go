// Package sym: hash-consed SMT terms with light simplification.
package sym

import (
	"fmt"
	"math/big"
	"sort"
	"strings"
)

type SortKind uint8

const (
	KBool SortKind = iota
	KInt
	KReal
	KBV
	KFP
)

type Sort struct {
	K SortKind
	W int // bit width for KBV
}

var (
	SBool = Sort{K: KBool}
	SInt  = Sort{K: KInt}
	SReal = Sort{K: KReal}
	SBV64 = Sort{K: KBV, W: 64}
	SFP   = Sort{K: KFP}
)

func (s Sort) SMT() string {
	switch s.K {
	case KBool:
		return "Bool"
	case KInt:
		return "Int"
	case KReal:
		return "Real"
	case KBV:
		return fmt.Sprintf("(_ BitVec %d)", s.W)
	case KFP:
		return "(_ FloatingPoint 11 53)"
	}
	return "?"
}

type Op uint8

const (
	OpConst Op = iota
	OpVar
	OpNot
	OpAnd
	OpOr
	OpIte
	OpEq
	OpAdd // n-ary
	OpMul // n-ary
	OpRDiv
	OpRecip // 1/x
	OpIDiv  // SMT-LIB div (euclidean)
	OpIMod  // SMT-LIB mod (euclidean)
	OpLt
	OpLe
	OpToReal
	OpToInt // floor
	OpUF
	OpRaw // raw SMT operator application: Name is the operator (used by Mode B)
)

type Term struct {
	ID   int
	Op   Op
	Sort Sort
	Args []*Term
	B    bool
	I    *big.Int
	R    *big.Rat
	Name string
}

type Store struct {
	tab   map[string]*Term
	next  int
	Vars  []*Term          // declaration order
	UFs   map[string]UFSig // uninterpreted functions
	True  *Term
	False *Term
	// share abstraction: a/(a+b+...) is replaced by a fresh "share" variable with linear lemmas
	ShareOn bool
	shares  map[int]*shareGroup
	shareBy map[string]*Term
}

type shareGroup struct {
	D     *Term
	items []shareItem
}
type shareItem struct {
	A *Term
	Q *Term
}

type UFSig struct {
	Args []Sort
	Ret  Sort
}

func NewStore() *Store {
	s := &Store{tab: map[string]*Term{}, UFs: map[string]UFSig{}, shares: map[int]*shareGroup{}, shareBy: map[string]*Term{}}
	s.True = s.intern(&Term{Op: OpConst, Sort: SBool, B: true})
	s.False = s.intern(&Term{Op: OpConst, Sort: SBool, B: false})
	return s
}

func (s *Store) key(t *Term) string {
	var sb strings.Builder
	fmt.Fprintf(&sb, "%d|%d.%d|", t.Op, t.Sort.K, t.Sort.W)
	switch t.Op {
	case OpConst:
		switch t.Sort.K {
		case KBool:
			fmt.Fprintf(&sb, "%v", t.B)
		case KInt:
			sb.WriteString(t.I.String())
		case KReal:
			sb.WriteString(t.R.String())
		default:
			if t.I != nil {
				sb.WriteString(t.I.String())
			} else {
				sb.WriteString(t.Name)
			}
		}
	case OpVar, OpUF, OpRaw:
		sb.WriteString(t.Name)
		sb.WriteByte('|')
	}
	for _, a := range t.Args {
		fmt.Fprintf(&sb, "%d,", a.ID)
	}
	return sb.String()
}

func (s *Store) intern(t *Term) *Term {
	k := s.key(t)
	if e, ok := s.tab[k]; ok {
		return e
	}
	t.ID = s.next
	s.next++
	s.tab[k] = t
	return t
}

func (s *Store) NumTerms() int { return s.next }

// ---- constants / vars

func (s *Store) Bool(b bool) *Term {
	if b {
		return s.True
	}
	return s.False
}
func (s *Store) Int(i int64) *Term { return s.BigInt(big.NewInt(i)) }
func (s *Store) BigInt(i *big.Int) *Term {
	return s.intern(&Term{Op: OpConst, Sort: SInt, I: new(big.Int).Set(i)})
}
func (s *Store) Rat(r *big.Rat) *Term {
	return s.intern(&Term{Op: OpConst, Sort: SReal, R: new(big.Rat).Set(r)})
}
func (s *Store) Float(f float64) *Term {
	r := new(big.Rat)
	if r.SetFloat64(f) == nil {
		panic(fmt.Sprintf("non-finite float constant %v", f))
	}
	return s.Rat(r)
}
func (s *Store) Var(name string, so Sort) *Term {
	t := &Term{Op: OpVar, Sort: so, Name: name}
	k := s.key(t)
	if e, ok := s.tab[k]; ok {
		return e
	}
	t = s.intern(t)
	s.Vars = append(s.Vars, t)
	return t
}

func (t *Term) IsConst() bool { return t.Op == OpConst }
func (t *Term) IsTrue() bool  { return t.Op == OpConst && t.Sort.K == KBool && t.B }
func (t *Term) IsFalse() bool { return t.Op == OpConst && t.Sort.K == KBool && !t.B }

// ConstInt returns the int64 value of a constant Int term.
func (t *Term) ConstInt() (int64, bool) {
	if t.Op == OpConst && t.Sort.K == KInt && t.I.IsInt64() {
		return t.I.Int64(), true
	}
	if t.Op == OpConst && t.Sort.K == KBV && t.I != nil {
		v := bvSigned(t)
		if v.IsInt64() {
			return v.Int64(), true
		}
	}
	return 0, false
}

// ---- const-tree (ite with constant leaves) lifting

const maxLeaves = 48

func leaves(t *Term) int {
	if t.Op == OpConst {
		return 1
	}
	if t.Op == OpIte {
		a := leaves(t.Args[1])
		if a < 0 {
			return -1
		}
		b := leaves(t.Args[2])
		if b < 0 || a+b > maxLeaves {
			return -1
		}
		return a + b
	}
	return -1
}

func isConstTree(t *Term) bool { return t.Op == OpIte && leaves(t) > 0 }

func (s *Store) lift1(t *Term, f func(*Term) *Term) *Term {
	if t.Op == OpConst {
		return f(t)
	}
	return s.Ite(t.Args[0], s.lift1(t.Args[1], f), s.lift1(t.Args[2], f))
}

// lift2 applies f over the constant leaves of a and b when affordable.
func (s *Store) lift2(a, b *Term, f func(x, y *Term) *Term) (*Term, bool) {
	la, lb := leaves(a), leaves(b)
	if la < 0 || lb < 0 || la*lb > maxLeaves || (la == 1 && lb == 1) {
		return nil, false
	}
	return s.lift1(a, func(x *Term) *Term {
		return s.lift1(b, func(y *Term) *Term { return f(x, y) })
	}), true
}

// ---- boolean

func (s *Store) Not(a *Term) *Term {
	switch a.Op {
	case OpConst:
		return s.Bool(!a.B)
	case OpNot:
		return a.Args[0]
	case OpLt:
		return s.Le(a.Args[1], a.Args[0])
	case OpLe:
		return s.Lt(a.Args[1], a.Args[0])
	}
	return s.intern(&Term{Op: OpNot, Sort: SBool, Args: []*Term{a}})
}

func litSet(t *Term, op Op) []*Term {
	if t.Op == op {
		return t.Args
	}
	return []*Term{t}
}

func (s *Store) nary(op Op, in []*Term) *Term {
	// op is OpAnd or OpOr
	unit, zero := s.True, s.False
	if op == OpOr {
		unit, zero = s.False, s.True
	}
	seen := map[int]bool{}
	var flat []*Term
	var add func(t *Term) bool
	add = func(t *Term) bool {
		if t == unit {
			return true
		}
		if t == zero {
			return false
		}
		if t.Op == op {
			for _, x := range t.Args {
				if !add(x) {
					return false
				}
			}
			return true
		}
		if seen[t.ID] {
			return true
		}
		seen[t.ID] = true
		flat = append(flat, t)
		return true
	}
	for _, t := range in {
		if !add(t) {
			return zero
		}
	}
	// complementary literals
	for _, t := range flat {
		if n := s.Not(t); n != t && seen[n.ID] {
			return zero
		}
	}
	if len(flat) == 0 {
		return unit
	}
	if op == OpOr && len(flat) > 1 && len(flat) <= 24 {
		flat = s.orResolve(flat)
		if len(flat) == 1 {
			return flat[0]
		}
		// re-flatten in case resolution produced nested ors / consts
		for _, t := range flat {
			if t == zero {
				return zero
			}
		}
	}
	if len(flat) == 1 {
		return flat[0]
	}
	sort.Slice(flat, func(i, j int) bool { return flat[i].ID < flat[j].ID })
	return s.intern(&Term{Op: op, Sort: SBool, Args: flat})
}

// orResolve: (X&c)|(X&!c) -> X ; A | (A&y) -> A.
func (s *Store) orResolve(ds []*Term) []*Term {
	changed := true
	for changed && len(ds) > 1 {
		changed = false
	outer:
		for i := 0; i < len(ds); i++ {
			for j := i + 1; j < len(ds); j++ {
				a, b := litSet(ds[i], OpAnd), litSet(ds[j], OpAnd)
				if r, ok := s.resolvePair(a, b); ok {
					ds[i] = r
					ds = append(ds[:j], ds[j+1:]...)
					changed = true
					// r may be True
					if r.IsTrue() {
						return []*Term{r}
					}
					break outer
				}
			}
		}
	}
	return ds
}

func (s *Store) resolvePair(a, b []*Term) (*Term, bool) {
	inA := map[int]bool{}
	for _, x := range a {
		inA[x.ID] = true
	}
	inB := map[int]bool{}
	for _, x := range b {
		inB[x.ID] = true
	}
	var onlyA, onlyB []*Term
	for _, x := range a {
		if !inB[x.ID] {
			onlyA = append(onlyA, x)
		}
	}
	for _, x := range b {
		if !inA[x.ID] {
			onlyB = append(onlyB, x)
		}
	}
	if len(onlyA) == 0 { // A subset of B: A | B = A
		return s.nary(OpAnd, a), true
	}
	if len(onlyB) == 0 {
		return s.nary(OpAnd, b), true
	}
	if len(onlyA) == 1 && len(onlyB) == 1 && s.Not(onlyA[0]) == onlyB[0] {
		var common []*Term
		for _, x := range a {
			if inB[x.ID] {
				common = append(common, x)
			}
		}
		return s.nary(OpAnd, common), true
	}
	return nil, false
}

func (s *Store) And(ts ...*Term) *Term { return s.nary(OpAnd, ts) }
func (s *Store) Or(ts ...*Term) *Term  { return s.nary(OpOr, ts) }
func (s *Store) Implies(a, b *Term) *Term {
	return s.Or(s.Not(a), b)
}

func (s *Store) Ite(c, a, b *Term) *Term {
	if c.IsTrue() {
		return a
	}
	if c.IsFalse() {
		return b
	}
	if a == b {
		return a
	}
	if a.Sort != b.Sort {
		panic(fmt.Sprintf("ite sort mismatch %v %v", a.Sort, b.Sort))
	}
	if a.Sort.K == KBool {
		switch {
		case a.IsTrue() && b.IsFalse():
			return c
		case a.IsFalse() && b.IsTrue():
			return s.Not(c)
		case a.IsTrue():
			return s.Or(c, b)
		case a.IsFalse():
			return s.And(s.Not(c), b)
		case b.IsTrue():
			return s.Or(s.Not(c), a)
		case b.IsFalse():
			return s.And(c, a)
		}
	}
	if c.Op == OpNot {
		return s.Ite(c.Args[0], b, a)
	}
	if a.Op == OpIte && a.Args[0] == c {
		return s.Ite(c, a.Args[1], b)
	}
	if b.Op == OpIte && b.Args[0] == c {
		return s.Ite(c, a, b.Args[2])
	}
	if b.Op == OpIte && b.Args[1] == a {
		return s.Ite(s.Or(c, b.Args[0]), a, b.Args[2])
	}
	return s.intern(&Term{Op: OpIte, Sort: a.Sort, Args: []*Term{c, a, b}})
}

func (s *Store) Eq(a, b *Term) *Term {
	if a == b {
		return s.True
	}
	if a.Sort != b.Sort {
		panic(fmt.Sprintf("eq sort mismatch %v %v: %s vs %s", a.Sort, b.Sort, s.Show(a), s.Show(b)))
	}
	if a.Op == OpConst && b.Op == OpConst {
		switch a.Sort.K {
		case KBool:
			return s.Bool(a.B == b.B)
		case KInt:
			return s.Bool(a.I.Cmp(b.I) == 0)
		case KReal:
			return s.Bool(a.R.Cmp(b.R) == 0)
		case KBV, KFP:
			if a.I != nil && b.I != nil {
				return s.Bool(a.I.Cmp(b.I) == 0)
			}
		}
	}
	if r, ok := s.lift2(a, b, s.Eq); ok {
		return r
	}
	if a.Sort.K == KBool {
		if a.IsTrue() {
			return b
		}
		if b.IsTrue() {
			return a
		}
		if a.IsFalse() {
			return s.Not(b)
		}
		if b.IsFalse() {
			return s.Not(a)
		}
	}
	if a.ID > b.ID {
		a, b = b, a
	}
	return s.intern(&Term{Op: OpEq, Sort: SBool, Args: []*Term{a, b}})
}

// ---- arithmetic (Int / Real)

func (s *Store) zero(so Sort) *Term {
	if so.K == KInt {
		return s.Int(0)
	}
	return s.Rat(new(big.Rat))
}
func (s *Store) one(so Sort) *Term {
	if so.K == KInt {
		return s.Int(1)
	}
	return s.Rat(big.NewRat(1, 1))
}

func constRat(t *Term) *big.Rat {
	if t.Sort.K == KInt {
		return new(big.Rat).SetInt(t.I)
	}
	return t.R
}

func (s *Store) mkConst(so Sort, r *big.Rat) *Term {
	if so.K == KInt {
		if !r.IsInt() {
			panic("non-integer int const")
		}
		return s.BigInt(r.Num())
	}
	return s.Rat(r)
}

// splitCoeff: t = c * u
func (s *Store) splitCoeff(t *Term) (*big.Rat, *Term) {
	if t.Op == OpMul && t.Args[0].Op == OpConst {
		rest := t.Args[1:]
		if len(rest) == 1 {
			return constRat(t.Args[0]), rest[0]
		}
		return constRat(t.Args[0]), s.intern(&Term{Op: OpMul, Sort: t.Sort, Args: rest})
	}
	return big.NewRat(1, 1), t
}

func (s *Store) Add(ts ...*Term) *Term {
	if len(ts) == 0 {
		panic("empty add")
	}
	so := ts[0].Sort
	if len(ts) == 2 {
		if r, ok := s.lift2(ts[0], ts[1], func(x, y *Term) *Term { return s.Add(x, y) }); ok {
			return r
		}
	}
	c := new(big.Rat)
	coef := map[int]*big.Rat{}
	var order []*Term
	var visit func(t *Term, k *big.Rat)
	visit = func(t *Term, k *big.Rat) {
		if t.Sort != so {
			panic(fmt.Sprintf("add sort mismatch: %s", s.Show(t)))
		}
		switch {
		case t.Op == OpConst:
			c.Add(c, new(big.Rat).Mul(k, constRat(t)))
		case t.Op == OpAdd:
			for _, a := range t.Args {
				visit(a, k)
			}
		default:
			k2, u := s.splitCoeff(t)
			if u.Op == OpAdd { // c*(a+b): distribute constants over sums
				kk := new(big.Rat).Mul(k, k2)
				for _, a := range u.Args {
					visit(a, kk)
				}
				return
			}
			kk := new(big.Rat).Mul(k, k2)
			if old, ok := coef[u.ID]; ok {
				old.Add(old, kk)
			} else {
				coef[u.ID] = kk
				order = append(order, u)
			}
		}
	}
	one := big.NewRat(1, 1)
	for _, t := range ts {
		visit(t, one)
	}
	var args []*Term
	sort.Slice(order, func(i, j int) bool { return order[i].ID < order[j].ID })
	for _, u := range order {
		k := coef[u.ID]
		if k.Sign() == 0 {
			continue
		}
		if k.Cmp(one) == 0 {
			args = append(args, u)
		} else {
			args = append(args, s.mulRaw(so, k, u))
		}
	}
	if len(args) == 0 {
		return s.mkConst(so, c)
	}
	if c.Sign() != 0 {
		args = append([]*Term{s.mkConst(so, c)}, args...)
	}
	if len(args) == 1 {
		return args[0]
	}
	return s.intern(&Term{Op: OpAdd, Sort: so, Args: args})
}

func (s *Store) mulRaw(so Sort, k *big.Rat, u *Term) *Term {
	kc := s.mkConst(so, k)
	if u.Op == OpMul {
		return s.intern(&Term{Op: OpMul, Sort: so, Args: append([]*Term{kc}, u.Args...)})
	}
	return s.intern(&Term{Op: OpMul, Sort: so, Args: []*Term{kc, u}})
}

func (s *Store) Neg(a *Term) *Term {
	return s.Mul(s.mkConst(a.Sort, big.NewRat(-1, 1)), a)
}
func (s *Store) Sub(a, b *Term) *Term { return s.Add(a, s.Neg(b)) }

func (s *Store) Mul(ts ...*Term) *Term {
	so := ts[0].Sort
	if len(ts) == 2 {
		if r, ok := s.lift2(ts[0], ts[1], func(x, y *Term) *Term { return s.Mul(x, y) }); ok {
			return r
		}
	}
	c := big.NewRat(1, 1)
	exp := map[int]int{}
	base := map[int]*Term{}
	var order []int
	var visit func(t *Term, sign int)
	visit = func(t *Term, sign int) {
		if t.Sort != so {
			panic(fmt.Sprintf("mul sort mismatch: %s", s.Show(t)))
		}
		switch t.Op {
		case OpConst:
			if sign > 0 {
				c.Mul(c, constRat(t))
			} else {
				c.Quo(c, constRat(t))
			}
		case OpMul:
			for _, a := range t.Args {
				visit(a, sign)
			}
		case OpRecip:
			if t.Args[0].Op == OpConst { // Recip(0): keep opaque
				if _, ok := base[t.ID]; !ok {
					base[t.ID] = t
					order = append(order, t.ID)
				}
				exp[t.ID] += sign
				return
			}
			visit(t.Args[0], -sign)
		default:
			if _, ok := base[t.ID]; !ok {
				base[t.ID] = t
				order = append(order, t.ID)
			}
			exp[t.ID] += sign
		}
	}
	for _, t := range ts {
		visit(t, 1)
	}
	if c.Sign() == 0 {
		return s.zero(so)
	}
	if s.ShareOn && so.K == KReal {
		if q := s.shareRewrite(exp, base, &order); q != nil {
			for _, t := range q {
				if _, ok := base[t.ID]; !ok {
					base[t.ID] = t
					order = append(order, t.ID)
				}
				exp[t.ID]++
			}
		}
	}
	var fs []*Term
	sort.Ints(order)
	for _, id := range order {
		n := exp[id]
		b := base[id]
		for ; n > 0; n-- {
			fs = append(fs, b)
		}
		if n < 0 {
			r := s.intern(&Term{Op: OpRecip, Sort: SReal, Args: []*Term{b}})
			for ; n < 0; n++ {
				fs = append(fs, r)
			}
		}
	}
	if len(fs) == 0 {
		return s.mkConst(so, c)
	}
	// distribute over a clamp-like ite (one constant branch)
	if len(fs) >= 2 || c.Cmp(big.NewRat(1, 1)) != 0 {
		for i, f := range fs {
			if f.Op == OpIte && (f.Args[1].Op == OpConst || f.Args[2].Op == OpConst) {
				rest := append(append([]*Term{}, fs[:i]...), fs[i+1:]...)
				rest = append(rest, s.mkConst(so, c))
				a := s.Mul(append([]*Term{f.Args[1]}, rest...)...)
				b := s.Mul(append([]*Term{f.Args[2]}, rest...)...)
				return s.Ite(f.Args[0], a, b)
			}
		}
	}
	sort.Slice(fs, func(i, j int) bool { return fs[i].ID < fs[j].ID })
	one := big.NewRat(1, 1)
	if len(fs) == 1 && fs[0].Op == OpAdd && c.Cmp(one) != 0 {
		// constant times a sum: distribute (keeps linear normal form)
		var parts []*Term
		for _, a := range fs[0].Args {
			parts = append(parts, s.Mul(s.mkConst(so, c), a))
		}
		return s.Add(parts...)
	}
	if c.Cmp(one) == 0 {
		if len(fs) == 1 {
			return fs[0]
		}
		return s.intern(&Term{Op: OpMul, Sort: so, Args: fs})
	}
	return s.intern(&Term{Op: OpMul, Sort: so, Args: append([]*Term{s.mkConst(so, c)}, fs...)})
}

// shareRewrite looks for A * (1/D) inside a product where D is a sum and A one of its
// summands (coefficient 1): the pair is replaced by the share variable q(A,D). It returns the
// share variables to multiply in; exp is updated in place.
func (s *Store) shareRewrite(exp map[int]int, base map[int]*Term, order *[]int) []*Term {
	var out []*Term
	for _, id := range *order {
		if exp[id] >= 0 {
			continue
		}
		D := base[id]
		if D.Op != OpAdd {
			continue
		}
		for exp[id] < 0 {
			matched := false
			for _, A := range D.Args {
				if A.Op == OpConst {
					continue
				}
				var fs []*Term
				if A.Op == OpMul {
					if A.Args[0].Op == OpConst {
						continue // coefficient != 1
					}
					fs = A.Args
				} else {
					fs = []*Term{A}
				}
				need := map[int]int{}
				for _, f := range fs {
					need[f.ID]++
				}
				ok := true
				for fid, n := range need {
					if exp[fid] < n {
						ok = false
						break
					}
				}
				if !ok {
					continue
				}
				for fid, n := range need {
					exp[fid] -= n
				}
				exp[id]++
				out = append(out, s.shareVar(A, D))
				matched = true
				break
			}
			if !matched {
				break
			}
		}
	}
	return out
}

func (s *Store) shareVar(A, D *Term) *Term {
	key := fmt.Sprintf("%d/%d", A.ID, D.ID)
	if q, ok := s.shareBy[key]; ok {
		return q
	}
	q := s.Var(fmt.Sprintf("$share_%d_%d", A.ID, D.ID), SReal)
	s.shareBy[key] = q
	g := s.shares[D.ID]
	if g == nil {
		g = &shareGroup{D: D}
		s.shares[D.ID] = g
	}
	g.items = append(g.items, shareItem{A: A, Q: q})
	return q
}

// ShareAxioms: defining equations and the linear lemmas of all share groups.
func (s *Store) ShareAxioms() []*Term {
	on := s.ShareOn
	s.ShareOn = false
	defer func() { s.ShareOn = on }()
	var out []*Term
	zero, one := s.Float(0), s.Float(1)
	var ids []int
	for id := range s.shares {
		ids = append(ids, id)
	}
	sort.Ints(ids)
	for _, id := range ids {
		g := s.shares[id]
		var nonneg []*Term
		for _, a := range g.D.Args {
			nonneg = append(nonneg, s.Le(zero, a))
		}
		pos := s.And(append(nonneg, s.Lt(zero, g.D))...)
		sum := zero
		shared := map[int]bool{}
		for _, it := range g.items {
			// definition (exact): q*D = A when D != 0
			out = append(out, s.Implies(s.Not(s.Eq(g.D, zero)), s.Eq(s.Mul(it.Q, g.D), it.A)))
			// lemmas
			out = append(out, s.Implies(pos, s.And(s.Le(zero, it.Q), s.Le(it.Q, one))))
			out = append(out, s.Implies(s.And(pos, s.Eq(it.A, zero)), s.Eq(it.Q, zero)))
			sum = s.Add(sum, it.Q)
			shared[it.A.ID] = true
		}
		complete := true
		for _, a := range g.D.Args {
			if !shared[a.ID] {
				complete = false
			}
		}
		if complete {
			out = append(out, s.Implies(pos, s.Eq(sum, one)))
		} else {
			out = append(out, s.Implies(pos, s.Le(sum, one)))
		}
	}
	return out
}

// Recip is 1/x in power-product normal form (x*(1/x) cancels; the caller
// records the definedness condition x != 0).
func (s *Store) Recip(x *Term) *Term {
	switch x.Op {
	case OpConst:
		if x.R.Sign() != 0 {
			return s.Rat(new(big.Rat).Inv(x.R))
		}
	case OpRecip:
		return x.Args[0]
	case OpMul:
		fs := make([]*Term, len(x.Args))
		for i, a := range x.Args {
			fs[i] = s.Recip(a)
		}
		return s.Mul(fs...)
	}
	if isConstTree(x) && !hasZeroLeafR(x) {
		return s.lift1(x, s.Recip)
	}
	return s.intern(&Term{Op: OpRecip, Sort: SReal, Args: []*Term{x}})
}

func hasZeroLeafR(t *Term) bool {
	if t.Op == OpConst {
		return t.R.Sign() == 0
	}
	if t.Op == OpIte {
		return hasZeroLeafR(t.Args[1]) || hasZeroLeafR(t.Args[2])
	}
	return false
}

func (s *Store) RDiv(a, b *Term) *Term {
	if a.Op == OpConst && a.R.Sign() == 0 {
		return a
	}
	return s.Mul(a, s.Recip(b))
}

func eucDivMod(a, b *big.Int) (*big.Int, *big.Int) {
	q, m := new(big.Int), new(big.Int)
	q.DivMod(a, b, m) // Euclidean
	return q, m
}

func (s *Store) IDiv(a, b *Term) *Term {
	if a.Op == OpConst && b.Op == OpConst && b.I.Sign() != 0 {
		q, _ := eucDivMod(a.I, b.I)
		return s.BigInt(q)
	}
	if r, ok := s.lift2(a, b, s.IDiv); ok && !hasZeroLeaf(b) {
		return r
	}
	if v, ok := b.ConstInt(); ok && v == 1 {
		return a
	}
	return s.intern(&Term{Op: OpIDiv, Sort: SInt, Args: []*Term{a, b}})
}
func (s *Store) IMod(a, b *Term) *Term {
	if a.Op == OpConst && b.Op == OpConst && b.I.Sign() != 0 {
		_, m := eucDivMod(a.I, b.I)
		return s.BigInt(m)
	}
	if r, ok := s.lift2(a, b, s.IMod); ok && !hasZeroLeaf(b) {
		return r
	}
	return s.intern(&Term{Op: OpIMod, Sort: SInt, Args: []*Term{a, b}})
}

func hasZeroLeaf(t *Term) bool {
	if t.Op == OpConst {
		return t.Sort.K == KInt && t.I.Sign() == 0
	}
	if t.Op == OpIte {
		return hasZeroLeaf(t.Args[1]) || hasZeroLeaf(t.Args[2])
	}
	return false
}

func (s *Store) cmp(op Op, a, b *Term) *Term {
	if a.Sort != b.Sort {
		panic(fmt.Sprintf("cmp sort mismatch %v %v: %s ; %s", a.Sort, b.Sort, s.Show(a), s.Show(b)))
	}
	if a.Op == OpConst && b.Op == OpConst {
		c := constRat(a).Cmp(constRat(b))
		if op == OpLt {
			return s.Bool(c < 0)
		}
		return s.Bool(c <= 0)
	}
	if a == b {
		return s.Bool(op == OpLe)
	}
	if r, ok := s.lift2(a, b, func(x, y *Term) *Term { return s.cmp(op, x, y) }); ok {
		return r
	}
	// normalise  c op k*u  /  k*u op c  (real sort): divide by the constant factor
	if a.Sort.K == KReal {
		if a.Op == OpConst && b.Op == OpMul && b.Args[0].Op == OpConst {
			k, u := s.splitCoeff(b)
			c := s.Rat(new(big.Rat).Quo(a.R, k))
			if k.Sign() > 0 {
				return s.cmp(op, c, u)
			}
			return s.cmp(op, u, c)
		}
		if b.Op == OpConst && a.Op == OpMul && a.Args[0].Op == OpConst {
			k, u := s.splitCoeff(a)
			c := s.Rat(new(big.Rat).Quo(b.R, k))
			if k.Sign() > 0 {
				return s.cmp(op, u, c)
			}
			return s.cmp(op, c, u)
		}
	}
	return s.intern(&Term{Op: op, Sort: SBool, Args: []*Term{a, b}})
}
func (s *Store) Lt(a, b *Term) *Term { return s.cmp(OpLt, a, b) }
func (s *Store) Le(a, b *Term) *Term { return s.cmp(OpLe, a, b) }
func (s *Store) Gt(a, b *Term) *Term { return s.cmp(OpLt, b, a) }
func (s *Store) Ge(a, b *Term) *Term { return s.cmp(OpLe, b, a) }

func (s *Store) ToReal(a *Term) *Term {
	if a.Op == OpConst {
		return s.Rat(new(big.Rat).SetInt(a.I))
	}
	if isConstTree(a) {
		return s.lift1(a, s.ToReal)
	}
	if a.Op == OpToInt && false {
		return a
	}
	return s.intern(&Term{Op: OpToReal, Sort: SReal, Args: []*Term{a}})
}

func ratFloor(r *big.Rat) *big.Int {
	q, m := new(big.Int), new(big.Int)
	q.DivMod(r.Num(), r.Denom(), m) // denom > 0 so Euclidean == floor
	return q
}

// ToInt is floor.
func (s *Store) ToInt(a *Term) *Term {
	if a.Op == OpConst {
		return s.BigInt(ratFloor(a.R))
	}
	if isConstTree(a) {
		return s.lift1(a, s.ToInt)
	}
	if a.Op == OpToReal {
		return a.Args[0]
	}
	return s.intern(&Term{Op: OpToInt, Sort: SInt, Args: []*Term{a}})
}

func (s *Store) UF(name string, ret Sort, args ...*Term) *Term {
	if _, ok := s.UFs[name]; !ok {
		sig := UFSig{Ret: ret}
		for _, a := range args {
			sig.Args = append(sig.Args, a.Sort)
		}
		s.UFs[name] = sig
	}
	return s.intern(&Term{Op: OpUF, Sort: ret, Name: name, Args: args})
}

// Raw builds an application of a native SMT operator (bit-vector / FP ops).
func (s *Store) Raw(opname string, ret Sort, args ...*Term) *Term {
	return s.intern(&Term{Op: OpRaw, Sort: ret, Name: opname, Args: args})
}

// RawConst is a literal of a non-Int/Real sort, spelled in SMT-LIB.
func (s *Store) RawConst(lit string, so Sort) *Term {
	return s.intern(&Term{Op: OpConst, Sort: so, Name: lit})
}

// ---- printing

func ratSMT(r *big.Rat) string {
	neg := r.Sign() < 0
	a := new(big.Rat).Abs(r)
	var str string
	if a.IsInt() {
		str = a.Num().String() + ".0"
	} else {
		str = "(/ " + a.Num().String() + ".0 " + a.Denom().String() + ".0)"
	}
	if neg {
		return "(- " + str + ")"
	}
	return str
}
func intSMT(i *big.Int) string {
	if i.Sign() < 0 {
		return "(- " + new(big.Int).Neg(i).String() + ")"
	}
	return i.String()
}

func (t *Term) opName() string {
	switch t.Op {
	case OpNot:
		return "not"
	case OpAnd:
		return "and"
	case OpOr:
		return "or"
	case OpIte:
		return "ite"
	case OpEq:
		return "="
	case OpAdd:
		return "+"
	case OpMul:
		return "*"
	case OpRDiv:
		return "/"
	case OpRecip:
		return "/ 1.0"
	case OpIDiv:
		return "div"
	case OpIMod:
		return "mod"
	case OpLt:
		return "<"
	case OpLe:
		return "<="
	case OpToReal:
		return "to_real"
	case OpToInt:
		return "to_int"
	case OpUF, OpRaw:
		return t.Name
	}
	return "?"
}

func smtName(n string) string {
	for _, c := range n {
		if !(c >= 'a' && c <= 'z' || c >= 'A' && c <= 'Z' || c >= '0' && c <= '9' || c == '_' || c == '.') {
			return "|" + n + "|"
		}
	}
	return n
}

// Printer emits define-funs for shared sub-DAGs.
type Printer struct {
	s       *Store
	defined map[int]bool
	refs    map[int]int
	Out     strings.Builder
}

func (s *Store) NewPrinter() *Printer {
	return &Printer{s: s, defined: map[int]bool{}, refs: map[int]int{}}
}

func (p *Printer) count(t *Term, seen map[int]bool) {
	p.refs[t.ID]++
	if seen[t.ID] {
		return
	}
	seen[t.ID] = true
	for _, a := range t.Args {
		p.count(a, seen)
	}
}

// Header emits declarations for all vars and UFs in the store.
func (p *Printer) Header() {
	for _, v := range p.s.Vars {
		fmt.Fprintf(&p.Out, "(declare-fun %s () %s)\n", smtName(v.Name), v.Sort.SMT())
	}
	names := make([]string, 0, len(p.s.UFs))
	for n := range p.s.UFs {
		names = append(names, n)
	}
	sort.Strings(names)
	for _, n := range names {
		sig := p.s.UFs[n]
		var as []string
		for _, a := range sig.Args {
			as = append(as, a.SMT())
		}
		fmt.Fprintf(&p.Out, "(declare-fun %s (%s) %s)\n", n, strings.Join(as, " "), sig.Ret.SMT())
	}
}

func (p *Printer) leaf(t *Term) (string, bool) {
	switch t.Op {
	case OpConst:
		switch t.Sort.K {
		case KBool:
			if t.B {
				return "true", true
			}
			return "false", true
		case KInt:
			return intSMT(t.I), true
		case KReal:
			return ratSMT(t.R), true
		case KBV:
			if t.I != nil {
				return fmt.Sprintf("(_ bv%s %d)", t.I.String(), t.Sort.W), true
			}
			return t.Name, true
		case KFP:
			if t.I != nil {
				b := fmt.Sprintf("%064b", t.I)
				return fmt.Sprintf("(fp #b%s #b%s #b%s)", b[0:1], b[1:12], b[12:64]), true
			}
			return t.Name, true
		default:
			return t.Name, true
		}
	case OpVar:
		return smtName(t.Name), true
	}
	return "", false
}

// Ref returns the SMT text referring to t, emitting definitions as needed.
func (p *Printer) Ref(t *Term) string {
	seen := map[int]bool{}
	p.count(t, seen)
	return p.ref(t)
}

func (p *Printer) ref(t *Term) string {
	if l, ok := p.leaf(t); ok {
		return l
	}
	if p.defined[t.ID] {
		return fmt.Sprintf("t%d", t.ID)
	}
	// iterative post-order to avoid deep recursion
	type fr struct {
		t *Term
		i int
	}
	stack := []fr{{t, 0}}
	for len(stack) > 0 {
		f := &stack[len(stack)-1]
		if f.i < len(f.t.Args) {
			a := f.t.Args[f.i]
			f.i++
			if _, ok := p.leaf(a); !ok && !p.defined[a.ID] {
				stack = append(stack, fr{a, 0})
			}
			continue
		}
		cur := f.t
		stack = stack[:len(stack)-1]
		if p.defined[cur.ID] {
			continue
		}
		var sb strings.Builder
		sb.WriteByte('(')
		sb.WriteString(cur.opName())
		for _, a := range cur.Args {
			sb.WriteByte(' ')
			if l, ok := p.leaf(a); ok {
				sb.WriteString(l)
			} else {
				fmt.Fprintf(&sb, "t%d", a.ID)
			}
		}
		sb.WriteByte(')')
		fmt.Fprintf(&p.Out, "(define-fun t%d () %s %s)\n", cur.ID, cur.Sort.SMT(), sb.String())
		p.defined[cur.ID] = true
	}
	return fmt.Sprintf("t%d", t.ID)
}

// Show renders a term as a (bounded) inline s-expression for messages.
func (s *Store) Show(t *Term) string {
	var sb strings.Builder
	var rec func(t *Term, d int)
	rec = func(t *Term, d int) {
		if sb.Len() > 600 {
			sb.WriteString("…")
			return
		}
		switch t.Op {
		case OpConst:
			switch t.Sort.K {
			case KBool:
				fmt.Fprintf(&sb, "%v", t.B)
			case KInt:
				sb.WriteString(t.I.String())
			case KReal:
				f, _ := t.R.Float64()
				fmt.Fprintf(&sb, "%g", f)
			case KFP:
				if f, ok := fpVal(t); ok {
					fmt.Fprintf(&sb, "%g", f)
				}
			case KBV:
				if t.I != nil {
					sb.WriteString(t.I.String())
				}
			default:
				sb.WriteString(t.Name)
			}
			return
		case OpVar:
			sb.WriteString(t.Name)
			return
		}
		if d > 6 {
			fmt.Fprintf(&sb, "#%d", t.ID)
			return
		}
		sb.WriteByte('(')
		sb.WriteString(t.opName())
		for _, a := range t.Args {
			sb.WriteByte(' ')
			rec(a, d+1)
		}
		sb.WriteByte(')')
	}
	rec(t, 0)
	return sb.String()
}
