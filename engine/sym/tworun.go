package sym

// Two-run non-interference. A harness H stands for (a piece of) one simulation run. In
// two-run mode it is executed
//
//	1. on the memory left by package initialisation                         (this run alone)
//	2. again from that memory, with all inputs renamed                      (another run)
//	3. a third time with the original inputs on the memory phase 2 left     (this run after the other)
//
// and everything phase 1 and phase 3 observe (vObserve*, the conditions of the harness'
// own assertions) has to agree for all values of both runs' inputs. Objects allocated by the
// harness are per-run state and are rebuilt by the harness itself; what persists from phase 2
// into phase 3 is exactly the package-level state (everything allocated during package
// initialisation). Phase 3 is skipped when no code of the repository wrote such state in
// phases 1 and 2 under a satisfiable path condition: then phase 3 is literally phase 1.

import (
	"fmt"
	"go/types"
	"math/big"
	"strings"

	"golang.org/x/tools/go/ssa"
)

type SharedWrite struct {
	Obj   int
	Name  string
	Where string
	Fn    string
	Guard *Term
	Phase int
	Held  *Term // some mutex is held (ghost); nil for writes through sync.Map
}

const ghostHeld = -1 // memory cell: "a mutex is held by this run"

func isHarnessFn(fn *ssa.Function) bool {
	for fn.Parent() != nil {
		fn = fn.Parent()
	}
	n := fn.Name()
	return strings.HasPrefix(n, "zz") && !strings.HasPrefix(n, "zzR_") || n == "init" || strings.HasPrefix(n, "init#")
}

func (e *Exec) isShared(obj int) bool {
	if obj <= e.SharedMax || e.extraShared[obj] {
		return true
	}
	if e.libGlobals[obj] {
		for g, id := range e.globals {
			if id == obj {
				return g.Pkg == e.Pkg
			}
		}
	}
	return false
}

func (e *Exec) objName(obj int) string {
	for g, id := range e.globals {
		if id == obj {
			return g.Name()
		}
	}
	return fmt.Sprintf("object#%d allocated during package initialisation", obj)
}

// noteSharedWrite records a write of repository code to package-level state.
func (e *Exec) noteSharedWrite(st *State, obj int, where string) {
	if e.phase == 0 || e.quietStore || len(e.fnStack) == 0 || !e.isShared(obj) {
		return
	}
	fn := e.fnStack[len(e.fnStack)-1]
	if isHarnessFn(fn) {
		return
	}
	var held *Term
	if !e.atomicStore {
		held = e.S.False
		if h, ok := st.Mem[ghostHeld].(*Term); ok {
			held = h
		}
	}
	e.SharedWrites = append(e.SharedWrites, SharedWrite{Obj: obj, Name: e.objName(obj), Where: where, Fn: fn.String(), Guard: st.G, Phase: e.phase, Held: held})
}

func copyMem(m map[int]Val) map[int]Val {
	c := make(map[int]Val, len(m))
	for k, v := range m {
		c[k] = v
	}
	return c
}

// runTwoRun is RunHarness in two-run mode.
func (e *Exec) runTwoRun(st *State, fn *ssa.Function, vals []Val) {
	id := e.TwoRun
	mem0 := copyMem(st.Mem)
	e.SharedMax = e.nextObj
	for g, oid := range e.globals {
		_ = g
		if oid > e.SharedMax {
			e.SharedMax = oid
		}
	}
	st.Mem[ghostHeld] = e.S.False
	mem0[ghostHeld] = e.S.False
	// phase 1
	e.phase = 1
	e.CallFunction(st, fn, vals, nil, "harness")
	g1 := st.G
	obl1 := append([]Obligation(nil), e.Obls...)
	obs1 := append([]ObserveRec(nil), e.Observes...)
	keep := struct {
		sides   int
		aborts  int
		covers  int
		unwinds int
		outs    int
	}{len(e.Sides), len(e.Aborts), len(e.Covers), len(e.Unwinds), len(e.Outs)}
	// phase 2: the other run
	st2 := &State{G: e.S.True, Mem: copyMem(mem0), Regs: map[ssa.Value]Val{}}
	e.phase = 2
	e.SymPrefix = "other."
	e.stubCalls = map[string]int{}
	e.CallFunction(st2, fn, vals, nil, "harness")
	e.SymPrefix = ""
	g2 := st2.G
	// records of phase 2 are not part of the claim about this run
	e.Obls = e.Obls[:len(obl1)]
	e.Observes = e.Observes[:len(obs1)]
	e.Sides, e.Aborts, e.Covers, e.Unwinds, e.Outs = e.Sides[:keep.sides], e.Aborts[:keep.aborts], e.Covers[:keep.covers], e.Unwinds[:keep.unwinds], e.Outs[:keep.outs]
	var gen []Obligation
	var live []SharedWrite
	for _, w := range e.SharedWrites {
		if !w.Guard.IsFalse() {
			live = append(live, w)
		}
	}
	// concurrent runs execute the same code: an unprotected write to package state is a data race
	for _, w := range live {
		if w.Held != nil && w.Phase == 1 {
			gen = append(gen, Obligation{ID: id + ".package_state_written_only_under_a_lock", Guard: w.Guard, Cond: w.Held, Where: w.Where + " writes " + w.Name})
		}
	}
	if len(live) == 0 {
		gen = append(gen, Obligation{ID: id + ".run_code_writes_no_package_state", Guard: e.S.True, Cond: e.S.True, Where: fn.Name()})
	} else {
		// phase 3: this run again, after the other one
		st3 := &State{G: g2, Mem: st2.Mem, Regs: map[ssa.Value]Val{}}
		// objects of phase 2 that are not package state are unreachable for phase 3 (the harness
		// rebuilds its per-run state); keeping them is harmless
		e.phase = 3
		e.stubCalls = map[string]int{}
		e.CallFunction(st3, fn, vals, nil, "harness")
		obl3 := append([]Obligation(nil), e.Obls[len(obl1):]...)
		obs3 := append([]ObserveRec(nil), e.Observes[len(obs1):]...)
		e.Obls = e.Obls[:len(obl1)]
		e.Observes = e.Observes[:len(obs1)]
		e.Sides, e.Aborts, e.Covers, e.Unwinds, e.Outs = e.Sides[:keep.sides], e.Aborts[:keep.aborts], e.Covers[:keep.covers], e.Unwinds[:keep.unwinds], e.Outs[:keep.outs]
		s := e.S
		both := s.And(g1, st3.G)
		_ = both
		wh := live[0].Where + " writes " + live[0].Name
		if len(obl1) != len(obl3) || len(obs1) != len(obs3) {
			gen = append(gen, Obligation{ID: id + ".same_results_after_another_run", Guard: g2, Cond: s.False, Where: wh + " (different number of observations)"})
		}
		for i := 0; i < len(obl1) && i < len(obl3); i++ {
			a, b := obl1[i], obl3[i]
			// same reachability and same verdict
			c := s.And(s.Eq(s.And(g2, a.Guard), b.Guard), s.Implies(b.Guard, s.Eq(a.Cond, b.Cond)))
			gen = append(gen, Obligation{ID: id + ".same_results_after_another_run", Guard: g2, Cond: c, Where: wh})
		}
		for i := 0; i < len(obs1) && i < len(obs3); i++ {
			a, b := obs1[i], obs3[i]
			var eq *Term
			if a.Term != nil && b.Term != nil {
				eq = s.Eq(a.Term, b.Term)
			} else {
				eq = e.strEq(a.Str, b.Str)
			}
			c := s.And(s.Eq(s.And(g2, a.Guard), b.Guard), s.Implies(b.Guard, eq))
			gen = append(gen, Obligation{ID: id + ".same_results_after_another_run", Guard: g2, Cond: c, Where: wh + " (" + a.Name + ")"})
		}
		if len(gen) == 0 {
			gen = append(gen, Obligation{ID: id + ".same_results_after_another_run", Guard: g2, Cond: s.True, Where: wh + " (harness observes nothing)"})
		}
	}
	e.phase = 0
	if e.TwoRunOnly {
		e.Obls = gen
		e.Observes = nil
		e.Sides, e.Aborts, e.Covers, e.Unwinds = nil, nil, nil, nil
	} else {
		e.Obls = append(e.Obls, gen...)
	}
}

// ---- sync.Map as an association list (interface keys and values)

var anyMapType = types.NewMap(types.NewInterfaceType(nil, nil), types.NewInterfaceType(nil, nil))

func (e *Exec) syncMapObj(st *State, recv Val, where string) *MapV {
	p := e.ptr(st, recv, where)
	if p == nil {
		panic(&UnsupportedErr{Msg: "sync.Map receiver at " + where})
	}
	key := fmt.Sprintf("%d/%v", p.Obj, p.Path)
	if e.syncMaps == nil {
		e.syncMaps = map[string]int{}
	}
	id, ok := e.syncMaps[key]
	if !ok {
		e.nextObj++
		id = e.nextObj
		e.objType[id] = anyMapType
		e.syncMaps[key] = id
		if e.isShared(p.Obj) {
			// contents of a package-level sync.Map are package state
			e.sharedExtra(id)
		}
	}
	if _, ok := st.Mem[id]; !ok {
		st.Mem[id] = &MapData{Typ: anyMapType}
	}
	return &MapV{Obj: id}
}

var _ = big.NewInt

func (e *Exec) sharedExtra(id int) {
	if e.extraShared == nil {
		e.extraShared = map[int]bool{}
	}
	e.extraShared[id] = true
}

func init() {
	// sync.RWMutex: only the ghost "a lock is held" is tracked (no deadlock discipline)
	for _, m := range []string{"Lock", "RLock"} {
		stubs["(*sync.RWMutex)."+m] = func(e *Exec, st *State, fn *ssa.Function, args []Val, where string) Val {
			if _, ok := st.Mem[ghostHeld]; ok && fn.Name() == "Lock" {
				st.Mem[ghostHeld] = e.S.True
			}
			return nil
		}
	}
	for _, m := range []string{"Unlock", "RUnlock"} {
		stubs["(*sync.RWMutex)."+m] = func(e *Exec, st *State, fn *ssa.Function, args []Val, where string) Val {
			if _, ok := st.Mem[ghostHeld]; ok && fn.Name() == "Unlock" {
				st.Mem[ghostHeld] = e.S.False
			}
			return nil
		}
	}
	stubs["(*sync.Map).Load"] = func(e *Exec, st *State, fn *ssa.Function, args []Val, where string) Val {
		m := e.syncMapObj(st, args[0], where)
		v, found := e.mapLookup(st, m, args[1], anyMapType.Elem(), where)
		return TupleV{v, found}
	}
	stubs["(*sync.Map).Store"] = func(e *Exec, st *State, fn *ssa.Function, args []Val, where string) Val {
		m := e.syncMapObj(st, args[0], where)
		e.atomicStore = true
		e.mapUpdate(st, m, args[1], args[2], where)
		e.atomicStore = false
		return nil
	}
	stubs["(*sync.Map).LoadOrStore"] = func(e *Exec, st *State, fn *ssa.Function, args []Val, where string) Val {
		m := e.syncMapObj(st, args[0], where)
		v, found := e.mapLookup(st, m, args[1], anyMapType.Elem(), where)
		if found.IsTrue() {
			return TupleV{v, found}
		}
		nv := e.mergeVal(found, v, args[2])
		e.atomicStore = true
		e.mapUpdate(st, m, args[1], nv, where)
		e.atomicStore = false
		return TupleV{nv, found}
	}
	stubs["(*sync.Map).Delete"] = func(e *Exec, st *State, fn *ssa.Function, args []Val, where string) Val {
		panic(&UnsupportedErr{Msg: "sync.Map.Delete at " + where})
	}
}
