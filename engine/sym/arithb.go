package sym

import (
	"fmt"
	"go/token"
	"go/types"
	"math"
	"math/big"
	"strconv"
	"strings"
)

// ArithB: bit-precise encoding. Go integers are bit-vectors of their width
// (wrapping, truncated division), float64 is IEEE-754 binary64 with
// round-to-nearest-even, conversions as in Go on amd64. Concrete operands are
// folded with Go's own arithmetic, so a fully concrete run is bit-exact.
type ArithB struct{ S *Store }

func NewArithB(s *Store) Arith { return &ArithB{S: s} }

func (a *ArithB) Name() string { return "B" }
func (a *ArithB) IntSort(t types.Type) Sort {
	return Sort{K: KBV, W: intBits(t)}
}
func (a *ArithB) FloatSort() Sort { return SFP }

func (s *Store) BVConst(v *big.Int, w int) *Term {
	m := new(big.Int).Lsh(big.NewInt(1), uint(w))
	u := new(big.Int).Mod(v, m)
	return s.intern(&Term{Op: OpConst, Sort: Sort{K: KBV, W: w}, I: u})
}

func (s *Store) FPConst(f float64) *Term {
	bits := math.Float64bits(f)
	return s.intern(&Term{Op: OpConst, Sort: SFP, I: new(big.Int).SetUint64(bits)})
}

func fpVal(t *Term) (float64, bool) {
	if t.Op == OpConst && t.Sort.K == KFP {
		return math.Float64frombits(t.I.Uint64()), true
	}
	return 0, false
}

// signed value of a BV constant
func bvSigned(t *Term) *big.Int {
	v := new(big.Int).Set(t.I)
	if v.Bit(t.Sort.W-1) == 1 {
		v.Sub(v, new(big.Int).Lsh(big.NewInt(1), uint(t.Sort.W)))
	}
	return v
}

func (a *ArithB) IntConst(v *big.Int, t types.Type) *Term { return a.S.BVConst(v, intBits(t)) }
func (a *ArithB) FloatConst(f float64) *Term              { return a.S.FPConst(f) }

func (a *ArithB) IndexInt(x *Term, t types.Type) *Term {
	s := a.S
	if x.Sort.K == KInt {
		return x
	}
	if x.IsConst() {
		if isUnsigned(t) {
			return s.BigInt(x.I)
		}
		return s.BigInt(bvSigned(x))
	}
	if leaves(x) > 0 {
		return s.lift1(x, func(c *Term) *Term { return a.IndexInt(c, t) })
	}
	n := s.Raw("bv2nat", SInt, x)
	if isUnsigned(t) {
		return n
	}
	neg := s.Raw("bvslt", SBool, x, s.BVConst(big.NewInt(0), x.Sort.W))
	return s.Ite(neg, s.Sub(n, s.BigInt(new(big.Int).Lsh(big.NewInt(1), uint(x.Sort.W)))), n)
}

func (a *ArithB) FromIndexInt(x *Term, t types.Type) *Term {
	s := a.S
	w := intBits(t)
	if x.Sort.K == KBV {
		return x
	}
	if x.IsConst() {
		return s.BVConst(x.I, w)
	}
	if leaves(x) > 0 {
		return s.lift1(x, func(c *Term) *Term { return s.BVConst(c.I, w) })
	}
	return s.Raw(fmt.Sprintf("(_ int2bv %d)", w), Sort{K: KBV, W: w}, x)
}

func (a *ArithB) IntBin(e *Exec, st *State, op token.Token, x, y *Term, t types.Type, where string) *Term {
	s := a.S
	w := intBits(t)
	so := Sort{K: KBV, W: w}
	uns := isUnsigned(t)
	if y.Sort.W != w && (op == token.SHL || op == token.SHR) {
		// shift count of another width: resize
		if y.IsConst() {
			y = s.BVConst(y.I, w)
		} else if y.Sort.W < w {
			y = s.Raw(fmt.Sprintf("(_ zero_extend %d)", w-y.Sort.W), so, y)
		} else {
			y = s.Raw(fmt.Sprintf("(_ extract %d 0)", w-1), so, y)
		}
	}
	if x.IsConst() && y.IsConst() {
		xv, yv := bvSigned(x), bvSigned(y)
		if uns {
			xv, yv = x.I, y.I
		}
		r := new(big.Int)
		switch op {
		case token.ADD:
			r.Add(xv, yv)
		case token.SUB:
			r.Sub(xv, yv)
		case token.MUL:
			r.Mul(xv, yv)
		case token.QUO, token.REM:
			if yv.Sign() == 0 {
				e.abort(st, "divzero", where, "integer divide by zero")
				return s.BVConst(big.NewInt(0), w)
			}
			if op == token.QUO {
				r.Quo(xv, yv)
			} else {
				r.Rem(xv, yv)
			}
		case token.AND:
			r.And(x.I, y.I)
		case token.OR:
			r.Or(x.I, y.I)
		case token.XOR:
			r.Xor(x.I, y.I)
		case token.AND_NOT:
			r.AndNot(x.I, y.I)
		case token.SHL:
			if y.I.Cmp(big.NewInt(int64(w))) >= 0 {
				r.SetInt64(0)
			} else {
				r.Lsh(x.I, uint(y.I.Uint64()))
			}
		case token.SHR:
			if y.I.Cmp(big.NewInt(int64(w))) >= 0 {
				if !uns && xv.Sign() < 0 {
					r.SetInt64(-1)
				}
			} else {
				r.Rsh(xv, uint(y.I.Uint64()))
			}
		}
		return s.BVConst(r, w)
	}
	if r, ok := s.lift2(x, y, func(p, q *Term) *Term { return a.IntBin(e, st, op, p, q, t, where) }); ok && op != token.QUO && op != token.REM {
		return r
	}
	var name string
	switch op {
	case token.ADD:
		name = "bvadd"
	case token.SUB:
		name = "bvsub"
	case token.MUL:
		name = "bvmul"
	case token.QUO, token.REM:
		isZero := s.Eq(y, s.BVConst(big.NewInt(0), w))
		if !isZero.IsFalse() {
			e.abortIf(st, isZero, "divzero", where)
			if st.dead() {
				return s.BVConst(big.NewInt(0), w)
			}
		}
		switch {
		case op == token.QUO && uns:
			name = "bvudiv"
		case op == token.QUO:
			name = "bvsdiv"
		case uns:
			name = "bvurem"
		default:
			name = "bvsrem"
		}
	case token.AND:
		name = "bvand"
	case token.OR:
		name = "bvor"
	case token.XOR:
		name = "bvxor"
	case token.AND_NOT:
		return s.Raw("bvand", so, x, s.Raw("bvnot", so, y))
	case token.SHL:
		name = "bvshl"
	case token.SHR:
		if uns {
			name = "bvlshr"
		} else {
			name = "bvashr"
		}
	}
	return s.Raw(name, so, x, y)
}

func (a *ArithB) IntCmp(op token.Token, x, y *Term, t types.Type) *Term {
	s := a.S
	uns := isUnsigned(t)
	if x.IsConst() && y.IsConst() {
		xv, yv := bvSigned(x), bvSigned(y)
		if uns {
			xv, yv = x.I, y.I
		}
		c := xv.Cmp(yv)
		switch op {
		case token.EQL:
			return s.Bool(c == 0)
		case token.NEQ:
			return s.Bool(c != 0)
		case token.LSS:
			return s.Bool(c < 0)
		case token.LEQ:
			return s.Bool(c <= 0)
		case token.GTR:
			return s.Bool(c > 0)
		case token.GEQ:
			return s.Bool(c >= 0)
		}
	}
	if r, ok := s.lift2(x, y, func(p, q *Term) *Term { return a.IntCmp(op, p, q, t) }); ok {
		return r
	}
	lt, le := "bvslt", "bvsle"
	if uns {
		lt, le = "bvult", "bvule"
	}
	switch op {
	case token.EQL:
		return s.Eq(x, y)
	case token.NEQ:
		return s.Not(s.Eq(x, y))
	case token.LSS:
		return s.Raw(lt, SBool, x, y)
	case token.LEQ:
		return s.Raw(le, SBool, x, y)
	case token.GTR:
		return s.Raw(lt, SBool, y, x)
	case token.GEQ:
		return s.Raw(le, SBool, y, x)
	}
	panic("cmp")
}

func (a *ArithB) IntNeg(e *Exec, st *State, x *Term, t types.Type, where string) *Term {
	if x.IsConst() {
		return a.S.BVConst(new(big.Int).Neg(bvSigned(x)), x.Sort.W)
	}
	return a.S.Raw("bvneg", x.Sort, x)
}

const rne = "RNE"

func (s *Store) rm(name string) *Term { return s.RawConst(name, Sort{K: KInt, W: 999}) }

func (a *ArithB) FloatBin(e *Exec, st *State, op token.Token, x, y *Term, where string) *Term {
	s := a.S
	if xf, ok := fpVal(x); ok {
		if yf, ok := fpVal(y); ok {
			switch op {
			case token.ADD:
				return s.FPConst(xf + yf)
			case token.SUB:
				return s.FPConst(xf - yf)
			case token.MUL:
				return s.FPConst(xf * yf)
			case token.QUO:
				return s.FPConst(xf / yf)
			}
		}
	}
	var name string
	switch op {
	case token.ADD:
		name = "fp.add"
	case token.SUB:
		name = "fp.sub"
	case token.MUL:
		name = "fp.mul"
	case token.QUO:
		name = "fp.div"
	}
	return s.Raw(name+" "+rne, SFP, x, y)
}

func (a *ArithB) FloatCmp(op token.Token, x, y *Term) *Term {
	s := a.S
	if xf, ok := fpVal(x); ok {
		if yf, ok := fpVal(y); ok {
			switch op {
			case token.EQL:
				return s.Bool(xf == yf)
			case token.NEQ:
				return s.Bool(xf != yf)
			case token.LSS:
				return s.Bool(xf < yf)
			case token.LEQ:
				return s.Bool(xf <= yf)
			case token.GTR:
				return s.Bool(xf > yf)
			case token.GEQ:
				return s.Bool(xf >= yf)
			}
		}
	}
	switch op {
	case token.EQL:
		return s.Raw("fp.eq", SBool, x, y)
	case token.NEQ:
		return s.Not(s.Raw("fp.eq", SBool, x, y))
	case token.LSS:
		return s.Raw("fp.lt", SBool, x, y)
	case token.LEQ:
		return s.Raw("fp.leq", SBool, x, y)
	case token.GTR:
		return s.Raw("fp.lt", SBool, y, x)
	case token.GEQ:
		return s.Raw("fp.leq", SBool, y, x)
	}
	panic("fcmp")
}

func (a *ArithB) FloatNeg(x *Term) *Term {
	if f, ok := fpVal(x); ok {
		return a.S.FPConst(-f)
	}
	return a.S.Raw("fp.neg", SFP, x)
}

func (a *ArithB) ConvIntInt(e *Exec, st *State, x *Term, from, to types.Type, where string) *Term {
	s := a.S
	fw, tw := intBits(from), intBits(to)
	if x.IsConst() {
		if isUnsigned(from) {
			return s.BVConst(x.I, tw)
		}
		return s.BVConst(bvSigned(x), tw)
	}
	so := Sort{K: KBV, W: tw}
	switch {
	case tw == fw:
		return x
	case tw < fw:
		return s.Raw(fmt.Sprintf("(_ extract %d 0)", tw-1), so, x)
	case isUnsigned(from):
		return s.Raw(fmt.Sprintf("(_ zero_extend %d)", tw-fw), so, x)
	}
	return s.Raw(fmt.Sprintf("(_ sign_extend %d)", tw-fw), so, x)
}

func (a *ArithB) ConvIntFloat(x *Term, from types.Type) *Term {
	s := a.S
	if x.IsConst() {
		if isUnsigned(from) {
			f, _ := new(big.Float).SetInt(x.I).Float64()
			return s.FPConst(f)
		}
		f, _ := new(big.Float).SetInt(bvSigned(x)).Float64()
		return s.FPConst(f)
	}
	if isUnsigned(from) {
		return s.Raw("(_ to_fp_unsigned 11 53) "+rne, SFP, x)
	}
	return s.Raw("(_ to_fp 11 53) "+rne, SFP, x)
}

func (a *ArithB) ConvFloatInt(e *Exec, st *State, x *Term, to types.Type, where string) *Term {
	s := a.S
	w := intBits(to)
	if f, ok := fpVal(x); ok {
		tr := math.Trunc(f)
		bf := new(big.Float).SetFloat64(tr)
		bi, _ := bf.Int(nil)
		lo, hi := intRange(to)
		if math.IsNaN(f) || bi.Cmp(lo) < 0 || bi.Cmp(hi) > 0 {
			e.side("f2i-range", st, s.False, where)
			return s.BVConst(big.NewInt(0), w)
		}
		return s.BVConst(bi, w)
	}
	// in-range obligation: Go leaves the out-of-range result implementation-defined
	lo, hi := intRange(to)
	lof, _ := new(big.Float).SetInt(lo).Float64()
	hif, _ := new(big.Float).SetInt(hi).Float64()
	inr := s.And(s.Raw("fp.leq", SBool, s.FPConst(lof), x), s.Raw("fp.lt", SBool, x, s.FPConst(hif)))
	if w == 64 {
		e.side("f2i-range", st, inr, where)
	}
	if isUnsigned(to) {
		return s.Raw(fmt.Sprintf("(_ fp.to_ubv %d) RTZ", w), Sort{K: KBV, W: w}, x)
	}
	return s.Raw(fmt.Sprintf("(_ fp.to_sbv %d) RTZ", w), Sort{K: KBV, W: w}, x)
}

func (a *ArithB) Math(e *Exec, st *State, name string, args []*Term, where string) (*Term, bool) {
	s := a.S
	conc := make([]float64, len(args))
	allc := true
	for i, t := range args {
		f, ok := fpVal(t)
		if !ok {
			allc = false
			break
		}
		conc[i] = f
	}
	if allc {
		switch name {
		case "Abs":
			return s.FPConst(math.Abs(conc[0])), true
		case "Max":
			return s.FPConst(math.Max(conc[0], conc[1])), true
		case "Min":
			return s.FPConst(math.Min(conc[0], conc[1])), true
		case "Floor":
			return s.FPConst(math.Floor(conc[0])), true
		case "Ceil":
			return s.FPConst(math.Ceil(conc[0])), true
		case "Trunc":
			return s.FPConst(math.Trunc(conc[0])), true
		case "Round":
			return s.FPConst(math.Round(conc[0])), true
		case "Sqrt":
			return s.FPConst(math.Sqrt(conc[0])), true
		case "Pow":
			return s.FPConst(math.Pow(conc[0], conc[1])), true
		case "Exp":
			return s.FPConst(math.Exp(conc[0])), true
		case "Log":
			return s.FPConst(math.Log(conc[0])), true
		case "Mod":
			return s.FPConst(math.Mod(conc[0], conc[1])), true
		case "Sin":
			return s.FPConst(math.Sin(conc[0])), true
		case "Cos":
			return s.FPConst(math.Cos(conc[0])), true
		}
		return nil, false
	}
	switch name {
	case "Abs":
		return s.Raw("fp.abs", SFP, args[0]), true
	case "Max": // operands are assumed not NaN (inputs are range-constrained); +0/-0 ordering irrelevant here
		return s.Ite(s.Raw("fp.lt", SBool, args[0], args[1]), args[1], args[0]), true
	case "Min":
		return s.Ite(s.Raw("fp.lt", SBool, args[1], args[0]), args[1], args[0]), true
	case "Floor":
		return s.Raw("fp.roundToIntegral RTN", SFP, args[0]), true
	case "Ceil":
		return s.Raw("fp.roundToIntegral RTP", SFP, args[0]), true
	case "Trunc":
		return s.Raw("fp.roundToIntegral RTZ", SFP, args[0]), true
	case "Round":
		return s.Raw("fp.roundToIntegral RNA", SFP, args[0]), true
	case "Sqrt":
		return s.Raw("fp.sqrt "+rne, SFP, args[0]), true
	}
	return nil, false
}

// ParseFPValue parses an SMT-LIB floating-point model value.
func ParseFPValue(v string) (float64, bool) {
	v = strings.TrimSpace(v)
	if strings.HasPrefix(v, "(fp ") {
		f := strings.Fields(strings.Trim(v, "()"))
		if len(f) != 4 {
			return 0, false
		}
		bits := ""
		for _, p := range f[1:] {
			switch {
			case strings.HasPrefix(p, "#b"):
				bits += p[2:]
			case strings.HasPrefix(p, "#x"):
				n, ok := new(big.Int).SetString(p[2:], 16)
				if !ok {
					return 0, false
				}
				bits += fmt.Sprintf("%0*b", 4*len(p[2:]), n)
			default:
				return 0, false
			}
		}
		if len(bits) != 64 {
			return 0, false
		}
		u, err := strconv.ParseUint(bits, 2, 64)
		if err != nil {
			return 0, false
		}
		return math.Float64frombits(u), true
	}
	switch {
	case strings.Contains(v, "+zero"):
		return 0, true
	case strings.Contains(v, "-zero"):
		return math.Copysign(0, -1), true
	case strings.Contains(v, "+oo"):
		return math.Inf(1), true
	case strings.Contains(v, "-oo"):
		return math.Inf(-1), true
	case strings.Contains(v, "NaN"):
		return math.NaN(), true
	}
	return 0, false
}
