package sym

// NewArithB returns the bit-precise encoding (64-bit bit-vectors / IEEE doubles).
func NewArithB(s *Store) Arith { panic("mode B not built yet") }

// ParseFPValue parses an SMT-LIB floating-point model value (fp #b.. #b.. #b..).
func ParseFPValue(v string) (float64, bool) { return 0, false }
