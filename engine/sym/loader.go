package sym

import (
	"fmt"
	"go/types"
	"math/big"
	"os"
	"path/filepath"
	"strings"

	"golang.org/x/tools/go/packages"
	"golang.org/x/tools/go/ssa"
	"golang.org/x/tools/go/ssa/ssautil"
)

type Loaded struct {
	Prog *ssa.Program
	Pkg  *ssa.Package
	Pkgs []*packages.Package
	Dir  string
}

func goEnv() []string {
	env := os.Environ()
	return append(env, "GOWORK=off", "GOFLAGS=-mod=mod", "GOPROXY=off", "GOSUMDB=off", "GOTOOLCHAIN=local")
}

// Load loads the package in dir with the harness files of harnessDir injected
// as overlay files named zz_verif_<name>.go.
// SkipFilesMentioning: harness files that call one of these (regions that could not be lifted) are left out;
// their harnesses are then reported as not found (inconclusive).
var SkipFilesMentioning []string

func Load(dir string, harnessDirs []string, extra map[string][]byte) (*Loaded, error) {
	overlay := map[string][]byte{}
	pkgName := PkgNameOf(dir)
	for _, hd := range harnessDirs {
		files, _ := filepath.Glob(filepath.Join(hd, "*.go"))
		for _, f := range files {
			if strings.HasSuffix(f, "_test.go") {
				continue
			}
			b, err := os.ReadFile(f)
			if err != nil {
				return nil, err
			}
			skip := false
			for _, name := range SkipFilesMentioning {
				if strings.Contains(string(b), name+"(") {
					skip = true
				}
			}
			if skip {
				continue
			}
			overlay[filepath.Join(dir, "zz_verif_"+filepath.Base(f))] = RewritePackage(b, pkgName)
		}
	}
	for k, v := range extra {
		overlay[filepath.Join(dir, k)] = v
	}
	cfg := &packages.Config{Mode: packages.LoadAllSyntax, Dir: dir, Overlay: overlay, Env: goEnv()}
	pkgs, err := packages.Load(cfg, ".")
	if err != nil {
		return nil, err
	}
	var errs []string
	packages.Visit(pkgs, nil, func(p *packages.Package) {
		for _, e := range p.Errors {
			errs = append(errs, e.Error())
		}
	})
	if len(errs) > 0 {
		return nil, fmt.Errorf("load errors:\n%s", strings.Join(errs, "\n"))
	}
	prog, spkgs := ssautil.AllPackages(pkgs, ssa.InstantiateGenerics)
	prog.Build()
	return &Loaded{Prog: prog, Pkg: spkgs[0], Pkgs: pkgs, Dir: dir}, nil
}

// PkgNameOf returns the package name declared by the Go files in dir.
func PkgNameOf(dir string) string {
	files, _ := filepath.Glob(filepath.Join(dir, "*.go"))
	for _, f := range files {
		if strings.HasSuffix(f, "_test.go") {
			continue
		}
		b, err := os.ReadFile(f)
		if err != nil {
			continue
		}
		for _, l := range strings.Split(string(b), "\n") {
			if strings.HasPrefix(l, "package ") {
				return strings.TrimSpace(strings.TrimPrefix(l, "package "))
			}
		}
	}
	return "main"
}

// RewritePackage replaces the package clause of a harness file.
func RewritePackage(src []byte, name string) []byte {
	lines := strings.Split(string(src), "\n")
	for i, l := range lines {
		if strings.HasPrefix(l, "package ") {
			lines[i] = "package " + name
			break
		}
	}
	return []byte(strings.Join(lines, "\n"))
}

// RunInit executes the package initializer leniently and snapshots memory.
func (e *Exec) RunInit() *State {
	st := &State{G: e.S.True, Mem: map[int]Val{}, Regs: map[ssa.Value]Val{}}
	initFn := e.Pkg.Func("init")
	if initFn == nil {
		return st
	}
	e.Lenient = true
	func() {
		defer func() {
			if r := recover(); r != nil {
				u, ok := r.(*UnsupportedErr)
				if !ok {
					panic(r)
				}
				e.InitIncomplete = u.Msg
			}
		}()
		// do not run dependency initializers: skip calls to other packages' init
		e.CallFunction(st, initFn, nil, nil, "init")
	}()
	e.Lenient = false
	// reset everything init may have recorded
	e.Obls, e.Sides, e.Aborts, e.Covers, e.Outs, e.Unwinds, e.Observes = nil, nil, nil, nil, nil, nil, nil
	e.BlocksExec, e.EdgesExec, e.Merges = 0, 0, 0
	e.FuncsSeen = map[string]string{}
	e.Stubs = map[string]int{}
	st.G = e.S.True
	st.Regs = map[ssa.Value]Val{}
	st.Defers = nil
	return st
}

// RunHarness executes harness function `name` with concrete int arguments.
func (e *Exec) RunHarness(name string, args []int64) (err error) {
	fn := e.Pkg.Func(name)
	if fn == nil {
		return fmt.Errorf("harness %s not found", name)
	}
	defer func() {
		if r := recover(); r != nil {
			if u, ok := r.(*UnsupportedErr); ok {
				err = u
				return
			}
			panic(r)
		}
	}()
	st := e.RunInit()
	if len(args) != len(fn.Params) {
		return fmt.Errorf("harness %s expects %d args, got %d", name, len(fn.Params), len(args))
	}
	vals := make([]Val, len(args))
	for i, a := range args {
		pt := fn.Params[i].Type()
		switch {
		case isInteger(pt):
			vals[i] = e.F.IntConst(big.NewInt(a), pt)
		case isBoolean(pt):
			vals[i] = e.S.Bool(a != 0)
		case isFloat(pt):
			vals[i] = e.F.FloatConst(float64(a))
		default:
			return fmt.Errorf("harness param %d of type %s", i, pt)
		}
	}
	if e.TwoRun != "" {
		e.runTwoRun(st, fn, vals)
		return nil
	}
	e.CallFunction(st, fn, vals, nil, "harness")
	return nil
}

var _ = types.Typ
