package sym

// bufio.Scanner over a harness-supplied list of lines (intrinsic vScanner): the
// line texts are ordinary executor strings (concrete text, numeric tokens,
// symbolic bytes), the number of lines may be symbolic up to len(lines).

import (
	"go/types"

	"golang.org/x/tools/go/ssa"
)

type ScanObj struct {
	Lines []Val
	N     *Term // number of lines in the file (Int sort)
	Pos   *Term // number of lines consumed so far (Int sort)
}

func (e *Exec) scanObj(st *State, v Val, where string) (*Ptr, *ScanObj) {
	p, ok := v.(*Ptr)
	if !ok || p.Obj == 0 {
		e.unsupported(st, "bufio.Scanner that was not made by vScanner at "+where)
		return nil, nil
	}
	so, ok := st.Mem[p.Obj].(*ScanObj)
	if !ok {
		e.unsupported(st, "bufio.Scanner that was not made by vScanner at "+where)
		return nil, nil
	}
	return p, so
}

func init() {
	if stubs == nil {
		stubs = map[string]stubFn{}
	}
	stubs["(*bufio.Scanner).Scan"] = func(e *Exec, st *State, fn *ssa.Function, args []Val, where string) Val {
		p, so := e.scanObj(st, args[0], where)
		if so == nil {
			return e.S.False
		}
		s := e.S
		ok := s.Lt(so.Pos, so.N)
		if k, isC := so.Pos.ConstInt(); isC && int(k) >= len(so.Lines) {
			ok = s.False
		}
		st.Mem[p.Obj] = &ScanObj{Lines: so.Lines, N: so.N, Pos: s.Ite(ok, s.Add(so.Pos, s.Int(1)), so.Pos)}
		return ok
	}
	stubs["(*bufio.Scanner).Text"] = func(e *Exec, st *State, fn *ssa.Function, args []Val, where string) Val {
		_, so := e.scanObj(st, args[0], where)
		if so == nil {
			return &StrV{}
		}
		if k, isC := so.Pos.ConstInt(); isC {
			if k < 1 || int(k) > len(so.Lines) {
				return &StrV{}
			}
			return so.Lines[k-1]
		}
		var res Val = &StrV{}
		for j := len(so.Lines); j >= 1; j-- {
			res = e.mergeVal(e.S.Eq(so.Pos, e.S.Int(int64(j))), so.Lines[j-1], res)
		}
		return res
	}
	stubs["(*bufio.Scanner).Err"] = func(e *Exec, st *State, fn *ssa.Function, args []Val, where string) Val {
		return &IfaceV{}
	}
	stubs["(*bufio.Scanner).Buffer"] = func(e *Exec, st *State, fn *ssa.Function, args []Val, where string) Val {
		return nil
	}
	stubs["(*os.File).Close"] = func(e *Exec, st *State, fn *ssa.Function, args []Val, where string) Val {
		return &IfaceV{}
	}
}

func init() {
	// registered here because the intrinsics table is built in stubs.go's init (runs later): see lateIntrinsics
	lateIntrinsics = append(lateIntrinsics, func() {
		intrinsics["vScanner"] = func(e *Exec, st *State, fn *ssa.Function, args []Val, where string) Val {
			lines := e.sliceElemsOrNil(st, args[0], where)
			n := e.term(args[1], "vScanner")
			if k, ok := n.ConstInt(); ok && (k < 0 || int(k) > len(lines)) {
				panic(&UnsupportedErr{Msg: "vScanner: line count outside the list at " + where})
			}
			so := &ScanObj{Lines: lines, N: e.F.IndexInt(n, types.Typ[types.Int]), Pos: e.S.Int(0)}
			id := e.newObj(st, nil, so)
			return &Ptr{Obj: id}
		}
	})
}
