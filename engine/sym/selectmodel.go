package sym

// A sequential abstraction of `select` over receive cases, for dispatcher loops that collect the
// results of runs launched with `go` (goroutines are recorded, not executed):
//   - a receive of a pointer-typed element ("a run's result") is possible only while fewer results
//     have been received than go statements were executed;
//   - a receive of any other element type (log text) is possible at most RecvLimit times in total;
//   - the case taken is an arbitrary ready one (fresh input select_<k>); if none is ready the
//     select blocks forever: abort kind "deadlock".
// Received values are fresh: a result object with symbolic boolean fields, an empty text.

import (
	"fmt"
	"go/types"
	"os"
	"strings"

	"golang.org/x/tools/go/ssa"
)

type selEvent struct {
	Guard *Term
	Key   string
}

func (e *Exec) countEvents(pred func(string) bool, evs []selEvent) *Term {
	s := e.S
	c := s.Int(0)
	for _, ev := range evs {
		if pred(ev.Key) {
			c = s.Add(c, s.Ite(ev.Guard, s.Int(1), s.Int(0)))
		}
	}
	return c
}

func (e *Exec) selectOp(st *State, x *ssa.Select, where string) {
	s := e.S
	if !x.Blocking {
		e.unsupported(st, "select with default at "+where)
		st.Regs[x] = &Poison{Why: "select"}
		return
	}
	n := len(x.States)
	e.selCount++
	idx := e.Input(fmt.Sprintf("select_%d", e.selCount), "int", types.Typ[types.Int])
	idxI := e.F.IndexInt(idx, types.Typ[types.Int])
	goCount := s.Int(0)
	for _, ev := range e.Outs {
		if strings.HasPrefix(ev.Chan, "go:") {
			goCount = s.Add(goCount, s.Ite(ev.Guard, s.Int(1), s.Int(0)))
		}
	}
	limit := e.RecvLimit
	if limit == 0 {
		limit = 2
	}
	var ready []*Term
	var keys []string
	var elems []types.Type
	for _, stt := range x.States {
		if stt.Dir != types.RecvOnly {
			e.unsupported(st, "select with a send case at "+where)
			st.Regs[x] = &Poison{Why: "select"}
			return
		}
		et := stt.Chan.Type().Underlying().(*types.Chan).Elem()
		key := et.String()
		cnt := e.countEvents(func(k string) bool { return k == key }, e.selEvents)
		if _, isPtr := et.Underlying().(*types.Pointer); isPtr {
			ready = append(ready, s.Lt(cnt, goCount))
		} else {
			ready = append(ready, s.Lt(cnt, s.Int(int64(limit))))
		}
		keys = append(keys, key)
		elems = append(elems, et)
	}
	e.abortIf(st, s.Not(s.Or(ready...)), "deadlock", where)
	if st.dead() {
		st.Regs[x] = &Poison{Why: "deadlock"}
		return
	}
	cond := s.And(s.Le(s.Int(0), idxI), s.Lt(idxI, s.Int(int64(n))))
	for i := range ready {
		cond = s.And(cond, s.Or(s.Not(s.Eq(idxI, s.Int(int64(i)))), ready[i]))
	}
	st.G = s.And(st.G, cond)
	tv := TupleV{idx, s.True}
	for i, et := range elems {
		taken := s.And(st.G, s.Eq(idxI, s.Int(int64(i))))
		e.selEvents = append(e.selEvents, selEvent{Guard: taken, Key: keys[i]})
		if e.selTaken == nil {
			e.selTaken = map[[2]int]*Term{}
		}
		e.selTaken[[2]int{e.selCount, i}] = taken
		tv = append(tv, e.freshRecv(st, et, fmt.Sprintf("recv_%d_%d", e.selCount, i)))
	}
	st.Regs[x] = tv
}

// freshRecv: an arbitrary received value: pointer to a struct whose bool fields are symbolic, error fields non-nil,
// everything else zero; other kinds zero.
func (e *Exec) freshRecv(st *State, t types.Type, name string) Val {
	pt, ok := t.Underlying().(*types.Pointer)
	if !ok {
		return e.zeroVal(t)
	}
	stt, ok := pt.Elem().Underlying().(*types.Struct)
	if !ok {
		return e.zeroVal(t)
	}
	ag := &Agg{Typ: pt.Elem(), Elems: make([]Val, stt.NumFields())}
	for i := 0; i < stt.NumFields(); i++ {
		ft := stt.Field(i).Type()
		if b, ok := ft.Underlying().(*types.Basic); ok && b.Kind() == types.Bool {
			ag.Elems[i] = e.Input(name+"_"+stt.Field(i).Name(), "bool", types.Typ[types.Bool])
		} else if types.Identical(ft, types.Universe.Lookup("error").Type()) {
			ag.Elems[i] = e.mkError(&StrV{Conc: "run failed"})
		} else if b, ok := ft.Underlying().(*types.Basic); ok && b.Kind() == types.String {
			// a text that identifies this received value (e.g. the log id of the run): "[7<k>]", distinct per receive
			ag.Elems[i] = &StrV{Conc: fmt.Sprintf("[7%s]", strings.TrimPrefix(strings.Replace(name, "_", "", -1), "recv"))}
		}
	}
	id := e.newObj(st, pt.Elem(), ag)
	if e.recvVals == nil {
		e.recvVals = map[string]Val{}
	}
	e.recvVals[name] = &Ptr{Obj: id}
	return &Ptr{Obj: id}
}

func init() {
	lateIntrinsics = append(lateIntrinsics, func() {
		// vRecvCount(kind): number of receives taken by select so far; kind "result" = pointer-typed elements, else the others
		intrinsics["vRecvCount"] = func(e *Exec, st *State, fn *ssa.Function, args []Val, where string) Val {
			kind, _ := e.concStr(args[0])
			c := e.countEvents(func(k string) bool { return strings.HasPrefix(k, "*") == (kind == "result") }, e.selEvents)
			return e.F.FromIndexInt(c, types.Typ[types.Int])
		}
		// vLastOut: text of the last stdout event that lies on the current path unconditionally
		intrinsics["vLastOut"] = func(e *Exec, st *State, fn *ssa.Function, args []Val, where string) Val {
			for k := len(e.Outs) - 1; k >= 0; k-- {
				ev := e.Outs[k]
				if ev.Chan != "stdout" || ev.Text == nil {
					continue
				}
				both := e.S.And(st.G, ev.Guard)
				if both.IsFalse() {
					continue
				}
				if both == st.G || e.implied(st.G, ev.Guard, 0) || !e.Feasible(e.S.And(st.G, e.S.Not(ev.Guard))) {
					return ev.Text
				}
				if !e.Feasible(both) {
					continue
				}
				panic(&UnsupportedErr{Msg: "vLastOut: the last output event is conditional on the current path at " + where})
			}
			return &StrV{}
		}
		// vRecvN(): number of select statements executed so far; vRecvTaken(k, c): case c of the k-th select was the one
		// taken (symbolic); vRecvValue(k, c): the value that case received (a pointer for result channels)
		intrinsics["vRecvN"] = func(e *Exec, st *State, fn *ssa.Function, args []Val, where string) Val {
			return e.F.FromIndexInt(e.S.Int(int64(e.selCount)), types.Typ[types.Int])
		}
		intrinsics["vRecvTaken"] = func(e *Exec, st *State, fn *ssa.Function, args []Val, where string) Val {
			k, ok1 := e.term(args[0], "vRecvTaken").ConstInt()
			c, ok2 := e.term(args[1], "vRecvTaken").ConstInt()
			if !ok1 || !ok2 {
				panic(&UnsupportedErr{Msg: "vRecvTaken needs concrete arguments at " + where})
			}
			g := e.selTaken[[2]int{int(k), int(c)}]
			if g == nil {
				return e.S.False
			}
			return g
		}
		intrinsics["vRecvValue"] = func(e *Exec, st *State, fn *ssa.Function, args []Val, where string) Val {
			k, ok1 := e.term(args[0], "vRecvValue").ConstInt()
			c, ok2 := e.term(args[1], "vRecvValue").ConstInt()
			if !ok1 || !ok2 {
				panic(&UnsupportedErr{Msg: "vRecvValue needs concrete arguments at " + where})
			}
			v, ok := e.recvVals[fmt.Sprintf("recv_%d_%d", k, c)]
			if !ok {
				return &IfaceV{}
			}
			p := v.(*Ptr)
			root := st.Mem[p.Obj]
			if ag, ok := root.(*Agg); ok {
				return &IfaceV{T: types.NewPointer(ag.Typ), V: v}
			}
			return &IfaceV{}
		}
		// vOutCount(text): number of lines written to standard output (so far, on the current path) that equal text
		intrinsics["vOutCount"] = func(e *Exec, st *State, fn *ssa.Function, args []Val, where string) Val {
			s := e.S
			c := s.Int(0)
			for _, ev := range e.Outs {
				if ev.Chan != "stdout" || ev.Text == nil {
					continue
				}
				var eq *Term
				switch ev.Text.(type) {
				case *StrV, *StrIte:
					eq = e.strMapT(ev.Text, func(x *StrV) *Term {
						return e.strMapT(args[0], func(y *StrV) *Term {
							if x.Segs != nil && y.Segs == nil && y.Sym == nil {
								// literal text + rendered numbers against a concrete text: different literal prefix = different
								if x.Segs[0].Dec == nil && !strings.HasPrefix(y.Conc, x.Segs[0].Text) {
									return e.S.False
								}
							}
							if x.Sym == nil && x.Segs == nil && y.Sym == nil && y.Segs == nil {
								// Println appends a line feed
								return e.S.Bool(strings.TrimSuffix(x.Conc, "\n") == strings.TrimSuffix(y.Conc, "\n"))
							}
							if y.Sym == nil && y.Segs == nil {
								// Println appends a line feed
								return e.S.Or(e.strEq(x, y), e.strEq(x, &StrV{Conc: y.Conc + "\n"}))
							}
							return e.strEq(x, y)
						})
					})
				default:
					continue
				}
				if os.Getenv("VERIF_OUT_DEBUG") != "" {
					if f, err := os.OpenFile("/tmp/outcount.log", os.O_APPEND|os.O_CREATE|os.O_WRONLY, 0644); err == nil {
						fmt.Fprintf(f, "event %T %v guardTrue=%v eqConst=%v/%v\n", ev.Text, describeStr(ev.Text), ev.Guard.IsTrue(), eq.IsTrue(), eq.IsFalse())
						f.Close()
					}
				}
				c = s.Add(c, s.Ite(s.And(ev.Guard, eq), s.Int(1), s.Int(0)))
			}
			return e.F.FromIndexInt(c, types.Typ[types.Int])
		}
		// vRecvFailed: number of received results whose Success field is false
		intrinsics["vRecvFlagCount"] = func(e *Exec, st *State, fn *ssa.Function, args []Val, where string) Val {
			field, _ := e.concStr(args[0])
			want := e.term(args[1], "vRecvFlagCount")
			s := e.S
			c := s.Int(0)
			for k := 1; k <= e.selCount; k++ {
				for i := 0; i < 8; i++ {
					name := fmt.Sprintf("%srecv_%d_%d_%s", e.SymPrefix, k, i, field)
					v, ok := e.inputBy[name]
					if !ok {
						continue
					}
					// the receive counts only when that case was the one taken
					g := e.selTaken[[2]int{k, i}]
					if g == nil {
						continue
					}
					c = s.Add(c, s.Ite(s.And(g, s.Eq(v, want)), s.Int(1), s.Int(0)))
				}
			}
			return e.F.FromIndexInt(c, types.Typ[types.Int])
		}
	})
}

func describeStr(v Val) string {
	switch x := v.(type) {
	case *StrV:
		if x.Sym != nil {
			return "<sym>"
		}
		if x.Segs != nil {
			return fmt.Sprintf("<segs %q...>", x.Segs[0].Text)
		}
		return fmt.Sprintf("%q", x.Conc)
	case *StrIte:
		return "ite(" + describeStr(x.A) + "," + describeStr(x.B) + ")"
	}
	return fmt.Sprintf("%T", v)
}
