package sym

// A sequential abstraction of `select` over receive cases, for dispatcher loops that collect the
// results of runs launched with `go` (goroutines are recorded, not executed):
//   - a receive of a pointer-typed element ("a run's result") is possible only while fewer results
//     have been received than go statements were executed;
//   - a receive of any other element type (log text) is possible at most RecvLimit times in total;
//   - the case taken is an arbitrary ready one (fresh input select_<k>); if none is ready the
//     select blocks forever: abort kind "deadlock".
// Received values are fresh: a result object with symbolic boolean fields, an empty text.

import (
	"fmt"
	"go/types"
	"strings"

	"golang.org/x/tools/go/ssa"
)

type selEvent struct {
	Guard *Term
	Key   string
}

func (e *Exec) countEvents(pred func(string) bool, evs []selEvent) *Term {
	s := e.S
	c := s.Int(0)
	for _, ev := range evs {
		if pred(ev.Key) {
			c = s.Add(c, s.Ite(ev.Guard, s.Int(1), s.Int(0)))
		}
	}
	return c
}

func (e *Exec) selectOp(st *State, x *ssa.Select, where string) {
	s := e.S
	if !x.Blocking {
		e.unsupported(st, "select with default at "+where)
		st.Regs[x] = &Poison{Why: "select"}
		return
	}
	n := len(x.States)
	e.selCount++
	idx := e.Input(fmt.Sprintf("select_%d", e.selCount), "int", types.Typ[types.Int])
	idxI := e.F.IndexInt(idx, types.Typ[types.Int])
	goCount := s.Int(0)
	for _, ev := range e.Outs {
		if strings.HasPrefix(ev.Chan, "go:") {
			goCount = s.Add(goCount, s.Ite(ev.Guard, s.Int(1), s.Int(0)))
		}
	}
	limit := e.RecvLimit
	if limit == 0 {
		limit = 2
	}
	var ready []*Term
	var keys []string
	var elems []types.Type
	for _, stt := range x.States {
		if stt.Dir != types.RecvOnly {
			e.unsupported(st, "select with a send case at "+where)
			st.Regs[x] = &Poison{Why: "select"}
			return
		}
		et := stt.Chan.Type().Underlying().(*types.Chan).Elem()
		key := et.String()
		cnt := e.countEvents(func(k string) bool { return k == key }, e.selEvents)
		if _, isPtr := et.Underlying().(*types.Pointer); isPtr {
			ready = append(ready, s.Lt(cnt, goCount))
		} else {
			ready = append(ready, s.Lt(cnt, s.Int(int64(limit))))
		}
		keys = append(keys, key)
		elems = append(elems, et)
	}
	e.abortIf(st, s.Not(s.Or(ready...)), "deadlock", where)
	if st.dead() {
		st.Regs[x] = &Poison{Why: "deadlock"}
		return
	}
	cond := s.And(s.Le(s.Int(0), idxI), s.Lt(idxI, s.Int(int64(n))))
	for i := range ready {
		cond = s.And(cond, s.Or(s.Not(s.Eq(idxI, s.Int(int64(i)))), ready[i]))
	}
	st.G = s.And(st.G, cond)
	tv := TupleV{idx, s.True}
	for i, et := range elems {
		taken := s.And(st.G, s.Eq(idxI, s.Int(int64(i))))
		e.selEvents = append(e.selEvents, selEvent{Guard: taken, Key: keys[i]})
		if e.selTaken == nil {
			e.selTaken = map[[2]int]*Term{}
		}
		e.selTaken[[2]int{e.selCount, i}] = taken
		tv = append(tv, e.freshRecv(st, et, fmt.Sprintf("recv_%d_%d", e.selCount, i)))
	}
	st.Regs[x] = tv
}

// freshRecv: an arbitrary received value: pointer to a struct whose bool fields are symbolic, error fields non-nil,
// everything else zero; other kinds zero.
func (e *Exec) freshRecv(st *State, t types.Type, name string) Val {
	pt, ok := t.Underlying().(*types.Pointer)
	if !ok {
		return e.zeroVal(t)
	}
	stt, ok := pt.Elem().Underlying().(*types.Struct)
	if !ok {
		return e.zeroVal(t)
	}
	ag := &Agg{Typ: pt.Elem(), Elems: make([]Val, stt.NumFields())}
	for i := 0; i < stt.NumFields(); i++ {
		ft := stt.Field(i).Type()
		if b, ok := ft.Underlying().(*types.Basic); ok && b.Kind() == types.Bool {
			ag.Elems[i] = e.Input(name+"_"+stt.Field(i).Name(), "bool", types.Typ[types.Bool])
		} else if types.Identical(ft, types.Universe.Lookup("error").Type()) {
			ag.Elems[i] = e.mkError(&StrV{Conc: "run failed"})
		}
	}
	id := e.newObj(st, pt.Elem(), ag)
	return &Ptr{Obj: id}
}

func init() {
	lateIntrinsics = append(lateIntrinsics, func() {
		// vRecvCount(kind): number of receives taken by select so far; kind "result" = pointer-typed elements, else the others
		intrinsics["vRecvCount"] = func(e *Exec, st *State, fn *ssa.Function, args []Val, where string) Val {
			kind, _ := e.concStr(args[0])
			c := e.countEvents(func(k string) bool { return strings.HasPrefix(k, "*") == (kind == "result") }, e.selEvents)
			return e.F.FromIndexInt(c, types.Typ[types.Int])
		}
		// vLastOut: text of the last stdout event that lies on the current path unconditionally
		intrinsics["vLastOut"] = func(e *Exec, st *State, fn *ssa.Function, args []Val, where string) Val {
			for k := len(e.Outs) - 1; k >= 0; k-- {
				ev := e.Outs[k]
				if ev.Chan != "stdout" || ev.Text == nil {
					continue
				}
				both := e.S.And(st.G, ev.Guard)
				if both.IsFalse() {
					continue
				}
				if both == st.G || e.implied(st.G, ev.Guard, 0) || !e.Feasible(e.S.And(st.G, e.S.Not(ev.Guard))) {
					return ev.Text
				}
				if !e.Feasible(both) {
					continue
				}
				panic(&UnsupportedErr{Msg: "vLastOut: the last output event is conditional on the current path at " + where})
			}
			return &StrV{}
		}
		// vRecvFailed: number of received results whose Success field is false
		intrinsics["vRecvFlagCount"] = func(e *Exec, st *State, fn *ssa.Function, args []Val, where string) Val {
			field, _ := e.concStr(args[0])
			want := e.term(args[1], "vRecvFlagCount")
			s := e.S
			c := s.Int(0)
			for k := 1; k <= e.selCount; k++ {
				for i := 0; i < 8; i++ {
					name := fmt.Sprintf("%srecv_%d_%d_%s", e.SymPrefix, k, i, field)
					v, ok := e.inputBy[name]
					if !ok {
						continue
					}
					// the receive counts only when that case was the one taken
					g := e.selTaken[[2]int{k, i}]
					if g == nil {
						continue
					}
					c = s.Add(c, s.Ite(s.And(g, s.Eq(v, want)), s.Int(1), s.Int(0)))
				}
			}
			return e.F.FromIndexInt(c, types.Typ[types.Int])
		}
	})
}
