package sym

// Models of sync.Once and sync.Pool, and the deep state comparison intrinsic vSameState.
//
// sync.Once: a ghost boolean per Once object ("done"); Do(f) calls f iff it is not set, then sets it.
// sync.Pool: a ghost slot per Pool object holding the object handed back by the most recent Put that has not
//   been taken out again (LIFO of depth one). Get returns it if there is one, else the result of New (nil if New
//   is nil). The real pool may return any object put before or a new one; the model fixes one admissible choice
//   (the one under which stale content of a recycled object shows), so a difference observed under the model is a
//   behaviour the real program can exhibit.
// Ghost cells live in State.Mem under keys <= ghostBase so that they fork, merge and persist like memory.

import (
	"fmt"
	"go/token"
	"go/types"
	"math/big"
	"os"
	"strings"

	"golang.org/x/tools/go/ssa"
)

const ghostBase = -1000

func (e *Exec) ghostKey(p *Ptr, kind string, def Val) int {
	var sb strings.Builder
	fmt.Fprintf(&sb, "%s:%d", kind, p.Obj)
	for _, s := range p.Path {
		if s.Idx != nil {
			k, ok := s.Idx.ConstInt()
			if !ok {
				panic(&UnsupportedErr{Msg: "sync object behind a symbolic index"})
			}
			fmt.Fprintf(&sb, "[%d]", k)
		} else {
			fmt.Fprintf(&sb, ".%d", s.Field)
		}
	}
	if e.ghostKeys == nil {
		e.ghostKeys = map[string]int{}
		e.ghostDefault = map[int]Val{}
	}
	k, ok := e.ghostKeys[sb.String()]
	if !ok {
		k = ghostBase - len(e.ghostKeys)
		e.ghostKeys[sb.String()] = k
		e.ghostDefault[k] = def
	}
	return k
}

func (e *Exec) ghostLoad(st *State, k int) Val {
	if v, ok := st.Mem[k]; ok {
		return v
	}
	return e.ghostDefault[k]
}

func init() {
	if stubs == nil {
		stubs = map[string]stubFn{}
	}
	stubs["(*sync.Once).Do"] = func(e *Exec, st *State, fn *ssa.Function, args []Val, where string) Val {
		p := e.ptr(st, args[0], where)
		if p == nil {
			return nil
		}
		k := e.ghostKey(p, "once", e.S.False)
		done := e.term(e.ghostLoad(st, k), "once state")
		if done == e.S.True {
			return nil
		}
		if done == e.S.False {
			st.Mem[k] = e.S.True
			e.callResolved(st, nil, args[1], nil, nil, where)
			return nil
		}
		sa := st.fork()
		sa.G = e.S.And(sa.G, e.S.Not(done))
		sa.Mem[k] = e.S.True
		e.callResolved(sa, nil, args[1], nil, nil, where)
		sb := st.fork()
		sb.G = e.S.And(sb.G, done)
		e.adoptMerged(st, sa, sb, nil, nil)
		return nil
	}
	// fmt.Sscanf for formats made of literal text and %d verbs, on concrete (possibly conditional) input: evaluated
	// with the real fmt.Sscanf per alternative, results stored through the *int arguments
	stubs["fmt.Sscanf"] = func(e *Exec, st *State, fn *ssa.Function, args []Val, where string) Val {
		format, ok := e.concStr(args[1])
		if !ok || strings.Count(format, "%") != strings.Count(format, "%d") {
			panic(&UnsupportedErr{Msg: "fmt.Sscanf: only concrete formats with %d verbs are modelled at " + where})
		}
		targets := e.sliceElemsOrNil(st, args[2], where)
		var ptrs []*Ptr
		for _, t := range targets {
			iv, ok := t.(*IfaceV)
			if !ok {
				panic(&UnsupportedErr{Msg: "fmt.Sscanf: target at " + where})
			}
			p, ok := iv.V.(*Ptr)
			if !ok || p.Obj == 0 {
				panic(&UnsupportedErr{Msg: "fmt.Sscanf: target is not a pointer at " + where})
			}
			ptrs = append(ptrs, p)
		}
		it := types.Typ[types.Int]
		res := e.strMapC(args[0], e.S.True, func(x *StrV, cond *Term) Val {
			if x.Sym != nil || x.Segs != nil {
				panic(&UnsupportedErr{Msg: "fmt.Sscanf on a symbolic text at " + where})
			}
			vals := make([]int, len(ptrs))
			ifs := make([]interface{}, len(ptrs))
			for i := range vals {
				ifs[i] = &vals[i]
			}
			n, err := fmt.Sscanf(x.Conc, format, ifs...)
			for i := 0; i < n && i < len(ptrs); i++ {
				old := e.load(st, ptrs[i], where)
				nv := e.F.IntConst(big.NewInt(int64(vals[i])), it)
				e.store(st, ptrs[i], e.mergeVal(cond, nv, old), where)
			}
			var ev Val = &IfaceV{}
			if err != nil {
				ev = e.mkError(&StrV{Conc: err.Error()})
			}
			return TupleV{e.F.IntConst(big.NewInt(int64(n)), it), ev}
		})
		return res
	}
	// strings.Builder: a ghost string per builder
	sbKey := func(e *Exec, st *State, recv Val, where string) int {
		p := e.ptr(st, recv, where)
		if p == nil {
			panic(&UnsupportedErr{Msg: "strings.Builder through a nil pointer at " + where})
		}
		return e.ghostKey(p, "builder", &StrV{})
	}
	stubs["(*strings.Builder).WriteString"] = func(e *Exec, st *State, fn *ssa.Function, args []Val, where string) Val {
		k := sbKey(e, st, args[0], where)
		st.Mem[k] = e.strConcat(e.ghostLoad(st, k), args[1])
		return TupleV{e.F.FromIndexInt(e.strLenT(args[1]), types.Typ[types.Int]), &IfaceV{}}
	}
	wr := func(e *Exec, st *State, fn *ssa.Function, args []Val, where string) Val {
		k := sbKey(e, st, args[0], where)
		c, ok := e.term(args[1], "rune").ConstInt()
		if !ok || c >= 128 {
			panic(&UnsupportedErr{Msg: "strings.Builder: symbolic or non-ASCII character at " + where})
		}
		st.Mem[k] = e.strConcat(e.ghostLoad(st, k), &StrV{Conc: string(rune(c))})
		if fn.Name() == "WriteByte" {
			return &IfaceV{}
		}
		return TupleV{e.F.IntConst(big.NewInt(1), types.Typ[types.Int]), &IfaceV{}}
	}
	stubs["(*strings.Builder).WriteRune"] = wr
	stubs["(*strings.Builder).WriteByte"] = wr
	stubs["(*strings.Builder).String"] = func(e *Exec, st *State, fn *ssa.Function, args []Val, where string) Val {
		return e.ghostLoad(st, sbKey(e, st, args[0], where))
	}
	stubs["(*strings.Builder).Len"] = func(e *Exec, st *State, fn *ssa.Function, args []Val, where string) Val {
		return e.F.FromIndexInt(e.strLenT(e.ghostLoad(st, sbKey(e, st, args[0], where))), types.Typ[types.Int])
	}
	stubs["(*strings.Builder).Reset"] = func(e *Exec, st *State, fn *ssa.Function, args []Val, where string) Val {
		st.Mem[sbKey(e, st, args[0], where)] = &StrV{}
		return nil
	}
	stubs["(*strings.Builder).Grow"] = func(e *Exec, st *State, fn *ssa.Function, args []Val, where string) Val { return nil }
	stubs["(*sync.Pool).Put"] = func(e *Exec, st *State, fn *ssa.Function, args []Val, where string) Val {
		p := e.ptr(st, args[0], where)
		if p == nil {
			return nil
		}
		k := e.ghostKey(p, "pool", &IfaceV{})
		e.atomicStore = true // the pool synchronises itself
		e.noteSharedWrite(st, p.Obj, where)
		e.atomicStore = false
		st.Mem[k] = args[1]
		return nil
	}
	stubs["(*sync.Pool).Get"] = func(e *Exec, st *State, fn *ssa.Function, args []Val, where string) Val {
		p := e.ptr(st, args[0], where)
		if p == nil {
			return nil
		}
		k := e.ghostKey(p, "pool", &IfaceV{})
		cur := e.ghostLoad(st, k)
		iv, ok := cur.(*IfaceV)
		if !ok {
			panic(&UnsupportedErr{Msg: "sync.Pool: conditional pool content at " + where})
		}
		if iv.T != nil {
			st.Mem[k] = &IfaceV{}
			return iv
		}
		// empty: New()
		pt := fn.Signature.Recv().Type().(*types.Pointer).Elem().Underlying().(*types.Struct)
		for i := 0; i < pt.NumFields(); i++ {
			if pt.Field(i).Name() == "New" {
				nf := e.load(st, &Ptr{Obj: p.Obj, Path: appendStep(p.Path, Step{Field: i})}, where)
				if fv, ok := nf.(*FuncV); ok && fv.Fn != nil {
					return e.callResolved(st, nil, fv, nil, nil, where)
				}
				return &IfaceV{}
			}
		}
		return &IfaceV{}
	}
	lateIntrinsics = append(lateIntrinsics, func() {
		// vSameState(a, b, skip...): a and b point to values of the same type; true iff every cell reachable from
		// them (fields, array elements, pointees, slice elements, map entries) holds equal values, except the
		// top-level fields named in skip. Fields added to the type later are compared as well.
		intrinsics["vSameState"] = func(e *Exec, st *State, fn *ssa.Function, args []Val, where string) Val {
			pa, pb := e.ifacePtr(args[0], where), e.ifacePtr(args[1], where)
			skip := map[string]bool{}
			if len(args) > 2 {
				for _, sv := range e.sliceElemsOrNil(st, args[2], where) {
					s, _ := e.concStr(sv)
					skip[s] = true
				}
			}
			va, vb := e.load(st, pa, where), e.load(st, pb, where)
			d := &deepCmp{e: e, st: st, where: where, seen: map[[2]int]bool{}}
			xa, ok1 := va.(*Agg)
			xb, ok2 := vb.(*Agg)
			if ok1 && ok2 && len(skip) > 0 {
				if s, ok := xa.Typ.Underlying().(*types.Struct); ok {
					var cs []*Term
					for i := 0; i < s.NumFields(); i++ {
						if skip[s.Field(i).Name()] {
							continue
						}
						cs = append(cs, d.eq(e.aggElem(xa, i), e.aggElem(xb, i), s.Field(i).Name()))
					}
					return e.S.And(cs...)
				}
			}
			return d.eq(va, vb, "")
		}
	})
}

func (e *Exec) ifacePtr(v Val, where string) *Ptr {
	if iv, ok := v.(*IfaceV); ok {
		v = iv.V
	}
	p, ok := v.(*Ptr)
	if !ok || p.Obj == 0 {
		panic(&UnsupportedErr{Msg: "vSameState needs two non-nil pointers at " + where})
	}
	return p
}

type deepCmp struct {
	e     *Exec
	st    *State
	where string
	seen  map[[2]int]bool
	depth int
}

func (d *deepCmp) eq(a, b Val, path string) *Term {
	r := d.eq1(a, b, path)
	if os.Getenv("VERIF_SAMESTATE_DEBUG") != "" && r != d.e.S.True {
		switch a.(type) {
		case *Agg, *Ptr:
		default:
			if f, err := os.OpenFile("/tmp/samestate.log", os.O_APPEND|os.O_CREATE|os.O_WRONLY, 0644); err == nil {
				fmt.Fprintf(f, "vSameState: %s : %T %T const-false=%v\n", path, a, b, r.IsFalse())
				f.Close()
			}
		}
	}
	return r
}

func (d *deepCmp) eq1(a, b Val, path string) *Term {
	e := d.e
	if a == nil && b == nil {
		return e.S.True
	}
	if sameVal(a, b) {
		return e.S.True
	}
	switch x := a.(type) {
	case *Term:
		y, ok := b.(*Term)
		if !ok {
			return e.S.False
		}
		return e.S.Eq(x, y)
	case *StrV, *StrIte:
		switch b.(type) {
		case *StrV, *StrIte:
			return e.strEq(a, b)
		}
		return e.S.False
	case *Agg:
		y, ok := b.(*Agg)
		if !ok || len(x.Elems) != len(y.Elems) {
			return e.S.False
		}
		var cs []*Term
		for i := range x.Elems {
			if x.Elems[i] == nil && y.Elems[i] == nil {
				continue // both lazily zero
			}
			c := d.eq(e.aggElem(x, i), e.aggElem(y, i), fmt.Sprintf("%s/%d", path, i))
			if c == e.S.False {
				return c
			}
			cs = append(cs, c)
		}
		return e.S.And(cs...)
	case *Ptr:
		y, ok := b.(*Ptr)
		if !ok {
			return e.S.False
		}
		if x.Obj == 0 || y.Obj == 0 {
			return e.S.Bool(x.Obj == 0 && y.Obj == 0)
		}
		if e.ptrEq(x, y) {
			return e.S.True
		}
		key := [2]int{x.Obj, y.Obj}
		if d.seen[key] || d.depth > 6 {
			return e.S.True
		}
		d.seen[key] = true
		d.depth++
		defer func() { d.depth-- }()
		return d.eq(e.load(d.st, x, d.where), e.load(d.st, y, d.where), path+"*")
	case *SliceV:
		y, ok := b.(*SliceV)
		if !ok {
			return e.S.False
		}
		if x.Obj == 0 || y.Obj == 0 {
			// nil and empty slices are the same state
			lx, ly := e.S.Int(0), e.S.Int(0)
			if x.Obj != 0 {
				lx = x.Len
			}
			if y.Obj != 0 {
				ly = y.Len
			}
			return e.S.Eq(lx, ly)
		}
		cs := []*Term{e.S.Eq(x.Len, y.Len)}
		n := x.Cap
		if y.Cap < n {
			n = y.Cap
		}
		if k, ok := x.Len.ConstInt(); ok && int(k) < n {
			n = int(k)
		}
		for j := 0; j < n; j++ {
			jt := e.S.Int(int64(j))
			ea := e.load(d.st, &Ptr{Obj: x.Obj, Path: appendStep(x.Path, Step{Idx: e.slIdx(x, jt)})}, d.where)
			eb := e.load(d.st, &Ptr{Obj: y.Obj, Path: appendStep(y.Path, Step{Idx: e.slIdx(y, jt)})}, d.where)
			cs = append(cs, e.S.Or(e.S.Le(x.Len, jt), d.eq(ea, eb, fmt.Sprintf("%s[%d]", path, j))))
		}
		return e.S.And(cs...)
	case *MapV:
		y, ok := b.(*MapV)
		if !ok {
			return e.S.False
		}
		if x.Obj == y.Obj {
			return e.S.True
		}
		if x.Obj == 0 || y.Obj == 0 {
			var md *MapData
			if x.Obj != 0 {
				md, _ = d.st.Mem[x.Obj].(*MapData)
			} else {
				md, _ = d.st.Mem[y.Obj].(*MapData)
			}
			if md == nil || len(md.Keys) == 0 {
				return e.S.True
			}
			return e.S.False
		}
		ma, _ := d.st.Mem[x.Obj].(*MapData)
		mb, _ := d.st.Mem[y.Obj].(*MapData)
		if ma == nil || mb == nil || len(ma.Keys) != len(mb.Keys) {
			panic(&UnsupportedErr{Msg: "vSameState: maps of different shape at " + path})
		}
		var cs []*Term
		for i := range ma.Keys {
			if !e.valEq(ma.Keys[i], mb.Keys[i]) {
				panic(&UnsupportedErr{Msg: "vSameState: maps with different key lists at " + path})
			}
			pa, pb := e.S.True, e.S.True
			if ma.Pres != nil && ma.Pres[i] != nil {
				pa = ma.Pres[i]
			}
			if mb.Pres != nil && mb.Pres[i] != nil {
				pb = mb.Pres[i]
			}
			cs = append(cs, e.S.Eq(pa, pb), e.S.Or(e.S.Not(pa), d.eq(ma.Vals[i], mb.Vals[i], path+"{}")))
		}
		return e.S.And(cs...)
	case *FuncV:
		y, ok := b.(*FuncV)
		if !ok {
			return e.S.False
		}
		return e.S.Bool(x.Fn == y.Fn)
	case *IfaceV, *IfaceIte:
		xi, ok1 := a.(*IfaceV)
		yi, ok2 := b.(*IfaceV)
		if ok1 && ok2 && xi.T != nil && yi.T != nil && types.Identical(xi.T, yi.T) {
			return d.eq(xi.V, yi.V, path+"(iface)")
		}
		return e.ifaceEq(a, b, d.where)
	case *Opaque:
		y, ok := b.(*Opaque)
		return e.S.Bool(ok && x.What == y.What)
	case *Poison:
		return e.S.True
	}
	r := e.binop(d.st, token.EQL, a, b, nil, nil, d.where)
	return e.term(r, "vSameState")
}
