package sym

import (
	"fmt"
	"math"
	"math/big"
)

// EVal is a concrete value of a term: bool or *big.Rat.
type EVal struct {
	B bool
	R *big.Rat
}

// Eval evaluates t under env (variable name -> value) with exact rationals;
// uninterpreted math functions are evaluated with Go's math package.
func (s *Store) Eval(t *Term, env map[string]EVal, memo map[int]EVal) (EVal, error) {
	if v, ok := memo[t.ID]; ok {
		return v, nil
	}
	var res EVal
	args := make([]EVal, len(t.Args))
	evalArgs := func() error {
		for i, a := range t.Args {
			v, err := s.Eval(a, env, memo)
			if err != nil {
				return err
			}
			args[i] = v
		}
		return nil
	}
	switch t.Op {
	case OpConst:
		switch t.Sort.K {
		case KBool:
			res = EVal{B: t.B}
		case KInt:
			res = EVal{R: new(big.Rat).SetInt(t.I)}
		case KReal:
			res = EVal{R: t.R}
		default:
			return res, fmt.Errorf("eval const of sort %v", t.Sort)
		}
	case OpVar:
		v, ok := env[t.Name]
		if !ok {
			return res, fmt.Errorf("no value for %s", t.Name)
		}
		res = v
	case OpIte:
		c, err := s.Eval(t.Args[0], env, memo)
		if err != nil {
			return res, err
		}
		if c.B {
			res, err = s.Eval(t.Args[1], env, memo)
		} else {
			res, err = s.Eval(t.Args[2], env, memo)
		}
		if err != nil {
			return res, err
		}
	case OpAnd:
		res = EVal{B: true}
		for _, a := range t.Args {
			v, err := s.Eval(a, env, memo)
			if err != nil {
				return res, err
			}
			if !v.B {
				res = EVal{B: false}
				break
			}
		}
	case OpOr:
		res = EVal{B: false}
		for _, a := range t.Args {
			v, err := s.Eval(a, env, memo)
			if err != nil {
				return res, err
			}
			if v.B {
				res = EVal{B: true}
				break
			}
		}
	default:
		if err := evalArgs(); err != nil {
			return res, err
		}
		switch t.Op {
		case OpNot:
			res = EVal{B: !args[0].B}
		case OpEq:
			if t.Args[0].Sort.K == KBool {
				res = EVal{B: args[0].B == args[1].B}
			} else {
				res = EVal{B: args[0].R.Cmp(args[1].R) == 0}
			}
		case OpAdd:
			r := new(big.Rat)
			for _, a := range args {
				r.Add(r, a.R)
			}
			res = EVal{R: r}
		case OpMul:
			r := big.NewRat(1, 1)
			for _, a := range args {
				r.Mul(r, a.R)
			}
			res = EVal{R: r}
		case OpRDiv:
			if args[1].R.Sign() == 0 {
				return res, fmt.Errorf("division by zero")
			}
			res = EVal{R: new(big.Rat).Quo(args[0].R, args[1].R)}
		case OpRecip:
			if args[0].R.Sign() == 0 {
				return res, fmt.Errorf("division by zero")
			}
			res = EVal{R: new(big.Rat).Inv(args[0].R)}
		case OpIDiv, OpIMod:
			if args[1].R.Sign() == 0 {
				return res, fmt.Errorf("int division by zero")
			}
			q, m := eucDivMod(args[0].R.Num(), args[1].R.Num())
			if t.Op == OpIDiv {
				res = EVal{R: new(big.Rat).SetInt(q)}
			} else {
				res = EVal{R: new(big.Rat).SetInt(m)}
			}
		case OpLt:
			res = EVal{B: args[0].R.Cmp(args[1].R) < 0}
		case OpLe:
			res = EVal{B: args[0].R.Cmp(args[1].R) <= 0}
		case OpToReal:
			res = args[0]
		case OpToInt:
			res = EVal{R: new(big.Rat).SetInt(ratFloor(args[0].R))}
		case OpUF:
			fs := make([]float64, len(args))
			for i, a := range args {
				fs[i], _ = a.R.Float64()
			}
			var f float64
			switch t.Name {
			case "uf_Sqrt":
				f = math.Sqrt(fs[0])
			case "uf_Exp":
				f = math.Exp(fs[0])
			case "uf_Log":
				f = math.Log(fs[0])
			case "uf_Log10":
				f = math.Log10(fs[0])
			case "uf_Sin":
				f = math.Sin(fs[0])
			case "uf_Cos":
				f = math.Cos(fs[0])
			case "uf_Tan":
				f = math.Tan(fs[0])
			case "uf_Asin":
				f = math.Asin(fs[0])
			case "uf_Acos":
				f = math.Acos(fs[0])
			case "uf_Atan":
				f = math.Atan(fs[0])
			case "uf_Pow":
				f = math.Pow(fs[0], fs[1])
			default:
				return res, fmt.Errorf("eval of UF %s", t.Name)
			}
			if math.IsNaN(f) || math.IsInf(f, 0) {
				return res, fmt.Errorf("non-finite %s", t.Name)
			}
			res = EVal{R: new(big.Rat).SetFloat64(f)}
		default:
			return res, fmt.Errorf("eval of op %d", t.Op)
		}
	}
	memo[t.ID] = res
	return res, nil
}

// EvalStr evaluates a string value (concrete, conditional, byte-symbolic or segment form) under a model.
func (e *Exec) EvalStr(v Val, env map[string]EVal, memo map[int]EVal) (string, bool) {
	switch x := v.(type) {
	case *StrV:
		if x.Segs != nil {
			out := ""
			for _, sg := range x.Segs {
				if sg.Dec == nil {
					out += sg.Text
					continue
				}
				r, err := e.S.Eval(sg.Dec, env, memo)
				if err != nil || r.R == nil || !r.R.IsInt() {
					return "", false
				}
				out += r.R.Num().String()
			}
			return out, true
		}
		if x.Sym == nil {
			return x.Conc, true
		}
		bs := make([]byte, len(x.Sym))
		for i, t := range x.Sym {
			r, err := e.S.Eval(t, env, memo)
			if err != nil || r.R == nil || !r.R.IsInt() {
				return "", false
			}
			bs[i] = byte(r.R.Num().Int64())
		}
		return string(bs), true
	case *StrIte:
		c, err := e.S.Eval(x.C, env, memo)
		if err != nil {
			return "", false
		}
		if c.B {
			return e.EvalStr(x.A, env, memo)
		}
		return e.EvalStr(x.B, env, memo)
	}
	return "", false
}
