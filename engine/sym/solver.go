package sym

import (
	"bytes"
	"context"
	"fmt"
	"math/big"
	"os/exec"
	"strings"
	"sync"
	"time"
)

// BuildSMT renders a standalone query: axioms + assertions, check-sat, get-value.
func (e *Exec) BuildSMT(asserts []*Term, getvals []*Term) string {
	p := e.S.NewPrinter()
	var body strings.Builder
	var refs []string
	// axioms about uninterpreted-function applications that the query does not mention are dropped
	// (they constrain nothing the query can observe); all other axioms are kept
	used := map[int]bool{}
	seen := map[int]bool{}
	var walk func(t *Term)
	walk = func(t *Term) {
		if seen[t.ID] {
			return
		}
		seen[t.ID] = true
		if t.Op == OpUF {
			used[t.ID] = true
		}
		for _, a := range t.Args {
			walk(a)
		}
	}
	for _, a := range asserts {
		walk(a)
	}
	for _, g := range getvals {
		walk(g)
	}
	ufsOf := func(t *Term) []int {
		var out []int
		sn := map[int]bool{}
		var w func(t *Term)
		w = func(t *Term) {
			if sn[t.ID] {
				return
			}
			sn[t.ID] = true
			if t.Op == OpUF {
				out = append(out, t.ID)
			}
			for _, a := range t.Args {
				w(a)
			}
		}
		w(t)
		return out
	}
	// closure: an axiom mentioning a used application makes its other applications used too
	type axInfo struct {
		t   *Term
		ufs []int
	}
	var infos []axInfo
	for _, a := range e.Axioms {
		infos = append(infos, axInfo{a, ufsOf(a)})
	}
	keep := make([]bool, len(infos))
	for i := range keep {
		keep[i] = true
	}
	for i, in := range infos {
		if !keep[i] {
			continue
		}
		all := true
		for _, u := range in.ufs {
			if !used[u] {
				all = false
			}
		}
		if !all {
			continue
		}
		refs = append(refs, p.Ref(in.t))
	}
	for _, a := range e.S.ShareAxioms() {
		refs = append(refs, p.Ref(a))
	}
	for _, a := range asserts {
		refs = append(refs, p.Ref(a))
	}
	var gv []string
	for _, g := range getvals {
		gv = append(gv, p.Ref(g))
	}
	defs := p.Out.String()
	p.Out.Reset()
	p.Header()
	body.WriteString("(set-option :produce-models true)\n(set-logic ALL)\n")
	body.WriteString(p.Out.String())
	body.WriteString(defs)
	for _, r := range refs {
		fmt.Fprintf(&body, "(assert %s)\n", r)
	}
	body.WriteString("(check-sat)\n")
	if len(gv) > 0 {
		fmt.Fprintf(&body, "(get-value (%s))\n", strings.Join(gv, " "))
	}
	return body.String()
}

type SolveResult struct {
	Status string // sat, unsat, unknown, error
	Solver string
	Secs   float64
	Values []string // raw s-expr text per getval (when sat)
	Raw    string
	All    map[string]string // per-solver status
}

var SolverCmds = map[string][]string{
	"z3":     {"z3", "-in", "-smt2"},
	"z3-new": {"z3-new", "-in", "-smt2"},
	"cvc5":   {"cvc5", "--lang=smt2", "--produce-models"},
	"cvc5n":  {"/verif/tools/cvc5n", "--nl-cov"},
}

func runOne(ctx context.Context, name, smt string, timeout time.Duration) (status string, values []string, raw string, secs float64) {
	cmdv := append([]string{}, SolverCmds[name]...)
	switch name {
	case "z3", "z3-new":
		cmdv = append(cmdv, fmt.Sprintf("-T:%d", int(timeout.Seconds())+1))
	case "cvc5", "cvc5n":
		cmdv = append(cmdv, fmt.Sprintf("--tlimit=%d", timeout.Milliseconds()))
	}
	cctx, cancel := context.WithTimeout(ctx, timeout+5*time.Second)
	defer cancel()
	cmd := exec.CommandContext(cctx, cmdv[0], cmdv[1:]...)
	cmd.Stdin = strings.NewReader(smt)
	var out bytes.Buffer
	cmd.Stdout = &out
	cmd.Stderr = &out
	t0 := time.Now()
	_ = cmd.Run()
	secs = time.Since(t0).Seconds()
	raw = out.String()
	lines := strings.Split(raw, "\n")
	status = "unknown"
	idx := -1
	hasErr := false
	for i, l := range lines {
		l = strings.TrimSpace(l)
		if idx < 0 && (l == "sat" || l == "unsat" || l == "unknown") {
			status = l
			idx = i
			continue
		}
		if strings.HasPrefix(l, "(error") {
			if strings.Contains(l, "get value") || strings.Contains(l, "model is not available") || strings.Contains(l, "Cannot get") {
				continue
			}
			hasErr = true
		}
	}
	if hasErr {
		status = "error"
	}
	if status == "sat" && idx >= 0 {
		rest := strings.Join(lines[idx+1:], "\n")
		values = parseGetValue(rest)
	}
	return
}

// RunPortfolio runs the solvers concurrently; the first definitive answer wins.
func RunPortfolio(smt string, timeout time.Duration, solvers []string) SolveResult {
	ctx, cancel := context.WithCancel(context.Background())
	defer cancel()
	type ans struct {
		name   string
		status string
		values []string
		raw    string
		secs   float64
	}
	ch := make(chan ans, len(solvers))
	for _, s := range solvers {
		go func(s string) {
			st, vals, raw, secs := runOne(ctx, s, smt, timeout)
			ch <- ans{s, st, vals, raw, secs}
		}(s)
	}
	res := SolveResult{Status: "unknown", All: map[string]string{}}
	for i := 0; i < len(solvers); i++ {
		a := <-ch
		res.All[a.name] = a.status
		if a.status == "sat" || a.status == "unsat" {
			res.Status, res.Solver, res.Secs, res.Values, res.Raw = a.status, a.name, a.secs, a.values, a.raw
			cancel()
			return res
		}
		if a.status == "error" && res.Status == "unknown" {
			res.Raw = a.raw
			res.Solver = a.name
		}
		if a.secs > res.Secs {
			res.Secs = a.secs
		}
	}
	return res
}

// RunAll runs every solver to completion (cross-solver diff).
func RunAll(smt string, timeout time.Duration, solvers []string) map[string]string {
	out := map[string]string{}
	var mu sync.Mutex
	var wg sync.WaitGroup
	for _, s := range solvers {
		wg.Add(1)
		go func(s string) {
			defer wg.Done()
			st, _, _, _ := runOne(context.Background(), s, smt, timeout)
			mu.Lock()
			out[s] = st
			mu.Unlock()
		}(s)
	}
	wg.Wait()
	return out
}

// ---- s-expression parsing of (get-value ...) output

type sx struct {
	atom string
	list []*sx
}

func parseSx(s string, i int) (*sx, int) {
	for i < len(s) && (s[i] == ' ' || s[i] == '\n' || s[i] == '\t' || s[i] == '\r') {
		i++
	}
	if i >= len(s) {
		return nil, i
	}
	if s[i] == '(' {
		n := &sx{list: []*sx{}}
		i++
		for {
			for i < len(s) && (s[i] == ' ' || s[i] == '\n' || s[i] == '\t' || s[i] == '\r') {
				i++
			}
			if i >= len(s) {
				return n, i
			}
			if s[i] == ')' {
				return n, i + 1
			}
			var c *sx
			c, i = parseSx(s, i)
			if c == nil {
				return n, i
			}
			n.list = append(n.list, c)
		}
	}
	j := i
	if s[i] == '|' {
		j = i + 1
		for j < len(s) && s[j] != '|' {
			j++
		}
		j++
		return &sx{atom: s[i:j]}, j
	}
	for j < len(s) && s[j] != ' ' && s[j] != '\n' && s[j] != '(' && s[j] != ')' && s[j] != '\t' && s[j] != '\r' {
		j++
	}
	return &sx{atom: s[i:j]}, j
}

func (x *sx) String() string {
	if x.list == nil {
		return x.atom
	}
	parts := make([]string, len(x.list))
	for i, c := range x.list {
		parts[i] = c.String()
	}
	return "(" + strings.Join(parts, " ") + ")"
}

func parseGetValue(s string) []string {
	x, _ := parseSx(s, 0)
	if x == nil || x.list == nil {
		return nil
	}
	var out []string
	for _, pair := range x.list {
		if len(pair.list) == 2 {
			out = append(out, pair.list[1].String())
		}
	}
	return out
}

// EvalNum evaluates a numeric model value (Int/Real) to a rational.
// exact=false when the value was an approximation (algebraic number).
func EvalNum(v string) (r *big.Rat, exact bool, err error) {
	x, _ := parseSx(v, 0)
	if x == nil {
		return nil, false, fmt.Errorf("empty value")
	}
	exact = true
	var ev func(x *sx) (*big.Rat, error)
	ev = func(x *sx) (*big.Rat, error) {
		if x.list == nil {
			a := strings.TrimSuffix(x.atom, "?")
			if a != x.atom {
				exact = false
			}
			r, ok := new(big.Rat).SetString(a)
			if !ok {
				return nil, fmt.Errorf("bad number %q", x.atom)
			}
			return r, nil
		}
		if len(x.list) == 0 {
			return nil, fmt.Errorf("empty list")
		}
		op := x.list[0].atom
		var args []*big.Rat
		if op == "root-obj" {
			return nil, fmt.Errorf("algebraic")
		}
		for _, c := range x.list[1:] {
			a, err := ev(c)
			if err != nil {
				return nil, err
			}
			args = append(args, a)
		}
		switch op {
		case "-":
			if len(args) == 1 {
				return new(big.Rat).Neg(args[0]), nil
			}
			r := new(big.Rat).Set(args[0])
			for _, a := range args[1:] {
				r.Sub(r, a)
			}
			return r, nil
		case "+":
			r := new(big.Rat)
			for _, a := range args {
				r.Add(r, a)
			}
			return r, nil
		case "*":
			r := big.NewRat(1, 1)
			for _, a := range args {
				r.Mul(r, a)
			}
			return r, nil
		case "/":
			if len(args) == 2 && args[1].Sign() != 0 {
				return new(big.Rat).Quo(args[0], args[1]), nil
			}
		case "to_real":
			return args[0], nil
		}
		return nil, fmt.Errorf("cannot evaluate %s", x.String())
	}
	r, err = ev(x)
	return r, exact, err
}

// Feasible asks a solver whether cond is satisfiable together with the axioms.
// Unknown counts as feasible.
func (e *Exec) Feasible(cond *Term) bool {
	if cond.IsFalse() {
		return false
	}
	if cond.IsTrue() {
		return true
	}
	e.FeasCalls++
	r := RunPortfolio(e.BuildSMT([]*Term{cond}, nil), 10*time.Second, []string{"z3"})
	return r.Status != "unsat"
}


// concretizeIdx: when ConcIdx is set and the (Int-sorted) index can take only one value under the
// path condition, that constant is returned (exact: the other values are infeasible); else idx.
func (e *Exec) concretizeIdx(st *State, idx *Term) *Term {
	if !e.ConcIdx || idx.IsConst() || st.dead() {
		return idx
	}
	if e.concIdxMemo == nil {
		e.concIdxMemo = map[[2]int]*Term{}
	}
	key := [2]int{st.G.ID, idx.ID}
	if c, ok := e.concIdxMemo[key]; ok {
		return c
	}
	out := idx
	e.FeasCalls++
	r := RunPortfolio(e.BuildSMT([]*Term{st.G}, []*Term{idx}), 10*time.Second, []string{"z3"})
	if r.Status == "sat" && len(r.Values) > 0 {
		if v, _, err := EvalNum(r.Values[0]); err == nil && v.IsInt() {
			c := e.S.BigInt(v.Num())
			if !e.Feasible(e.S.And(st.G, e.S.Not(e.S.Eq(idx, c)))) {
				out = c
			}
		}
	}
	e.concIdxMemo[key] = out
	return out
}
