package sym

import (
	"fmt"
	"go/token"
	"go/types"
	"math/big"
	"strings"

	"golang.org/x/tools/go/ssa"
)

func (e *Exec) execInstr(fr *frame, st *State, in ssa.Instruction) {
	where := e.pos(in.Pos())
	switch x := in.(type) {
	case *ssa.Alloc:
		t := x.Type().(*types.Pointer).Elem()
		id := e.newObj(st, t, e.zeroVal(t))
		st.Regs[x] = &Ptr{Obj: id}
	case *ssa.FieldAddr:
		p := e.ptr(st, e.get(st, x.X), where)
		if p == nil {
			return
		}
		if len(e.LockRules) > 0 {
			e.checkLockRule(st, x, p, where)
		}
		st.Regs[x] = &Ptr{Obj: p.Obj, Path: appendStep(p.Path, Step{Field: x.Field})}
	case *ssa.IndexAddr:
		base := e.get(st, x.X)
		idx := e.indexTerm(st, x.Index)
		idx = e.concretizeIdx(st, idx)
		switch b := base.(type) {
		case *Ptr:
			if b.Obj == 0 {
				e.abort(st, "nil", where, "index of nil array pointer")
				return
			}
			n := int(x.X.Type().Underlying().(*types.Pointer).Elem().Underlying().(*types.Array).Len())
			e.boundsCheck(st, idx, n, where)
			st.Regs[x] = &Ptr{Obj: b.Obj, Path: appendStep(b.Path, Step{Idx: idx})}
		case *SliceV:
			s := e.S
			ok := s.And(s.Le(s.Int(0), idx), s.Lt(idx, b.Len))
			e.abortIf(st, s.Not(ok), "bounds", where)
			if b.Obj == 0 {
				if !st.dead() {
					e.abort(st, "bounds", where, "index of nil slice")
				}
				return
			}
			st.Regs[x] = &Ptr{Obj: b.Obj, Path: appendStep(b.Path, Step{Idx: e.slIdx(b, idx)})}
		default:
			e.badVal(base, "IndexAddr base at "+where)
		}
	case *ssa.Field:
		a := e.get(st, x.X)
		ag, ok := a.(*Agg)
		if !ok {
			e.badVal(a, "Field at "+where)
		}
		st.Regs[x] = e.aggElem(ag, x.Field)
	case *ssa.Index:
		a := e.get(st, x.X)
		idx := e.indexTerm(st, x.Index)
		switch ag := a.(type) {
		case *Agg:
			st.Regs[x] = e.loadPath(st, ag, []Step{{Idx: idx}}, where)
		case *StrV, *StrIte:
			st.Regs[x] = e.strIndex(st, a, idx, where)
		default:
			e.badVal(a, "Index at "+where)
		}
	case *ssa.UnOp:
		e.execUnOp(st, x, where)
	case *ssa.BinOp:
		st.Regs[x] = e.binop(st, x.Op, e.get(st, x.X), e.get(st, x.Y), x.X.Type(), x.Y.Type(), where)
	case *ssa.Store:
		p := e.ptr(st, e.get(st, x.Addr), where)
		if p == nil {
			return
		}
		e.store(st, p, e.get(st, x.Val), where)
	case *ssa.Convert:
		st.Regs[x] = e.convert(st, e.get(st, x.X), x.X.Type(), x.Type(), where)
	case *ssa.ChangeType:
		st.Regs[x] = e.get(st, x.X)
	case *ssa.ChangeInterface:
		st.Regs[x] = e.get(st, x.X)
	case *ssa.MakeInterface:
		st.Regs[x] = &IfaceV{T: x.X.Type(), V: e.get(st, x.X)}
	case *ssa.TypeAssert:
		e.typeAssert(st, x, where)
	case *ssa.Extract:
		tv, ok := e.get(st, x.Tuple).(TupleV)
		if !ok {
			e.badVal(e.get(st, x.Tuple), "Extract at "+where)
		}
		st.Regs[x] = tv[x.Index]
	case *ssa.Call:
		r := e.call(st, x.Common(), x, where)
		if r != nil {
			st.Regs[x] = r
		} else if x.Type() != nil {
			if tu, ok := x.Type().(*types.Tuple); !ok || tu.Len() > 0 {
				st.Regs[x] = &Poison{Why: "void result"}
			}
		}
	case *ssa.MakeSlice:
		e.makeSlice(st, x, where)
	case *ssa.Slice:
		e.sliceOp(st, x, where)
	case *ssa.MakeMap:
		mt := x.Type().Underlying().(*types.Map)
		id := e.newObj(st, mt, &MapData{Typ: mt})
		st.Regs[x] = &MapV{Obj: id}
	case *ssa.MapUpdate:
		e.mapUpdate(st, e.get(st, x.Map), e.get(st, x.Key), e.get(st, x.Value), where)
	case *ssa.Lookup:
		e.lookup(st, x, where)
	case *ssa.Range:
		e.rangeInit(st, x, where)
	case *ssa.Next:
		e.rangeNext(st, x, where)
	case *ssa.MakeClosure:
		fv := &FuncV{Fn: x.Fn.(*ssa.Function)}
		for _, b := range x.Bindings {
			fv.Free = append(fv.Free, e.get(st, b))
		}
		st.Regs[x] = fv
	case *ssa.Defer:
		c := x.Common()
		d := deferRec{call: c}
		if !c.IsInvoke() {
			d.fn = e.get(st, c.Value)
		} else {
			d.fn = e.get(st, c.Value)
		}
		for _, a := range c.Args {
			d.args = append(d.args, e.get(st, a))
		}
		st.Defers = append(st.Defers, d)
	case *ssa.RunDefers:
		for len(st.Defers) > 0 && !st.dead() {
			d := st.Defers[len(st.Defers)-1]
			st.Defers = st.Defers[:len(st.Defers)-1]
			e.callResolved(st, d.call, d.fn, d.args, nil, where)
		}
	case *ssa.Go:
		e.goStmt(st, x, where)
	case *ssa.DebugRef:
	case *ssa.Send:
		e.Outs = append(e.Outs, OutEvent{Guard: st.G, Chan: "chan-send@" + where, Text: e.get(st, x.X)})
	case *ssa.Select:
		e.selectOp(st, x, where)
	case *ssa.MakeChan:
		id := e.newObj(st, nil, &Opaque{What: "chan"})
		st.Regs[x] = &Ptr{Obj: id}
	case *ssa.SliceToArrayPointer, *ssa.MultiConvert:
		e.unsupported(st, fmt.Sprintf("instruction %T at %s", in, where))
		if v, ok := in.(ssa.Value); ok {
			st.Regs[v] = &Poison{Why: fmt.Sprintf("%T", in)}
		}
	default:
		e.unsupported(st, fmt.Sprintf("instruction %T at %s", in, where))
		if v, ok := in.(ssa.Value); ok {
			st.Regs[v] = &Poison{Why: fmt.Sprintf("%T", in)}
		}
	}
}

// slIdx: backing-array index of element i of a slice.
func (e *Exec) slIdx(sl *SliceV, i *Term) *Term {
	r := e.S.Add(i, e.S.Int(int64(sl.Off)))
	if sl.OffT != nil {
		r = e.S.Add(r, sl.OffT)
	}
	return r
}

// LockRule: every access to Struct.Field must happen while Struct.Mutex is held.
type LockRule struct {
	Struct string `json:"struct"`
	Field  string `json:"field"`
	Mutex  string `json:"mutex"`
}

func (e *Exec) checkLockRule(st *State, x *ssa.FieldAddr, p *Ptr, where string) {
	if fn := x.Parent(); fn != nil && strings.HasPrefix(fn.Name(), "zz") {
		return // harness code sets up and inspects the state single-threaded
	}
	pt, ok := x.X.Type().Underlying().(*types.Pointer)
	if !ok {
		return
	}
	named, ok := pt.Elem().(*types.Named)
	if !ok {
		return
	}
	stt, ok := named.Underlying().(*types.Struct)
	if !ok {
		return
	}
	for _, r := range e.LockRules {
		if named.Obj().Name() != r.Struct || stt.Field(x.Field).Name() != r.Field {
			continue
		}
		for i := 0; i < stt.NumFields(); i++ {
			if stt.Field(i).Name() == r.Mutex {
				cell := &Ptr{Obj: p.Obj, Path: appendStep(appendStep(p.Path, Step{Field: i}), Step{Field: 0})}
				cur := e.term(e.load(st, cell, where), "mutex state")
				held := e.S.Eq(cur, e.S.Int(1))
				e.abortIf(st, e.S.Not(held), "unlocked-access", where+" "+r.Struct+"."+r.Field)
			}
		}
	}
}

func appendStep(p []Step, s Step) []Step {
	n := make([]Step, len(p)+1)
	copy(n, p)
	n[len(p)] = s
	return n
}

func (e *Exec) badVal(v Val, what string) {
	if p, ok := v.(*Poison); ok {
		panic(&UnsupportedErr{Msg: "use of poisoned value (" + p.Why + ") in " + what})
	}
	panic(&UnsupportedErr{Msg: fmt.Sprintf("unexpected %T in %s", v, what)})
}

func (e *Exec) ptr(st *State, v Val, where string) *Ptr {
	p, ok := v.(*Ptr)
	if !ok {
		e.badVal(v, "pointer use at "+where)
	}
	if p.Obj == 0 {
		e.abort(st, "nil", where, "nil pointer dereference")
		return nil
	}
	return p
}

func (e *Exec) indexTerm(st *State, v ssa.Value) *Term {
	t := e.term(e.get(st, v), "index")
	return e.F.IndexInt(t, v.Type())
}

func (e *Exec) execUnOp(st *State, x *ssa.UnOp, where string) {
	v := e.get(st, x.X)
	switch x.Op {
	case token.MUL: // load
		p := e.ptr(st, v, where)
		if p == nil {
			st.Regs[x] = &Poison{Why: "nil deref"}
			return
		}
		st.Regs[x] = e.load(st, p, where)
	case token.NOT:
		st.Regs[x] = e.S.Not(e.term(v, "not"))
	case token.SUB:
		t := e.term(v, "neg")
		if isFloat(x.X.Type()) {
			st.Regs[x] = e.F.FloatNeg(t)
		} else {
			st.Regs[x] = e.F.IntNeg(e, st, t, x.X.Type(), where)
		}
	case token.XOR:
		t := e.term(v, "xor")
		if t.IsConst() && t.Sort.K == KInt {
			r := new(big.Int).Not(t.I)
			st.Regs[x] = e.F.IntConst(r, x.Type())
			if isUnsigned(x.Type()) {
				st.Regs[x] = (&ArithR{S: e.S}).wrap(e.S.BigInt(r), x.Type())
			}
			return
		}
		e.unsupported(st, "^x on symbolic at "+where)
		st.Regs[x] = &Poison{Why: "^x"}
	case token.ARROW:
		e.unsupported(st, "channel receive at "+where)
		st.Regs[x] = &Poison{Why: "chan recv"}
	default:
		e.unsupported(st, "unop "+x.Op.String())
	}
}

func (e *Exec) binop(st *State, op token.Token, a, b Val, ta, tb types.Type, where string) Val {
	switch x := a.(type) {
	case *Term:
		y, ok := b.(*Term)
		if !ok {
			e.badVal(b, "binop at "+where)
		}
		switch {
		case isBoolean(ta):
			switch op {
			case token.EQL:
				return e.S.Eq(x, y)
			case token.NEQ:
				return e.S.Not(e.S.Eq(x, y))
			case token.AND:
				return e.S.And(x, y)
			case token.OR:
				return e.S.Or(x, y)
			}
		case isFloat(ta):
			switch op {
			case token.EQL, token.NEQ:
				e.noteFloatSite(where, "float "+op.String())
				return e.F.FloatCmp(op, x, y)
			case token.LSS, token.LEQ, token.GTR, token.GEQ:
				return e.F.FloatCmp(op, x, y)
			}
			return e.F.FloatBin(e, st, op, x, y, where)
		case isInteger(ta):
			switch op {
			case token.EQL, token.NEQ, token.LSS, token.LEQ, token.GTR, token.GEQ:
				return e.F.IntCmp(op, x, y, ta)
			case token.SHL, token.SHR:
				// shift count may have another int type
				return e.F.IntBin(e, st, op, x, y, ta, where)
			}
			return e.F.IntBin(e, st, op, x, y, ta, where)
		}
	case *StrV, *StrIte:
		switch op {
		case token.ADD:
			return e.strConcat(a, b)
		case token.EQL:
			return e.strEq(a, b)
		case token.NEQ:
			return e.S.Not(e.strEq(a, b))
		case token.LSS:
			return e.strLess(a, b)
		case token.GTR:
			return e.strLess(b, a)
		case token.LEQ:
			return e.S.Not(e.strLess(b, a))
		case token.GEQ:
			return e.S.Not(e.strLess(a, b))
		}
	case *Ptr:
		y, ok := b.(*Ptr)
		if !ok {
			e.badVal(b, "pointer compare at "+where)
		}
		eq := e.S.Bool(e.ptrEq(x, y))
		if x.Obj == y.Obj && x.Obj != 0 && !e.ptrEq(x, y) {
			// same object, possibly symbolic indexes
			if len(x.Path) == len(y.Path) {
				var cs []*Term
				same := true
				for i := range x.Path {
					if (x.Path[i].Idx == nil) != (y.Path[i].Idx == nil) || (x.Path[i].Idx == nil && x.Path[i].Field != y.Path[i].Field) {
						same = false
						break
					}
					if x.Path[i].Idx != nil {
						cs = append(cs, e.S.Eq(x.Path[i].Idx, y.Path[i].Idx))
					}
				}
				if same {
					eq = e.S.And(cs...)
				}
			}
		}
		if op == token.EQL {
			return eq
		}
		if op == token.NEQ {
			return e.S.Not(eq)
		}
	case *IfaceV, *IfaceIte:
		eq := e.ifaceEq(a, b, where)
		if op == token.EQL {
			return eq
		}
		return e.S.Not(eq)
	case *SliceV:
		// only comparison with nil
		y, ok := b.(*SliceV)
		if ok && (y.Obj == 0 || x.Obj == 0) {
			eq := e.S.Bool(x.Obj == 0 && y.Obj == 0)
			if op == token.EQL {
				return eq
			}
			return e.S.Not(eq)
		}
	case *MapV:
		y, ok := b.(*MapV)
		if ok {
			eq := e.S.Bool(x.Obj == y.Obj)
			if op == token.EQL {
				return eq
			}
			return e.S.Not(eq)
		}
	case *FuncV:
		y, ok := b.(*FuncV)
		if ok && (x.Fn == nil || y.Fn == nil) {
			eq := e.S.Bool(x.Fn == nil && y.Fn == nil)
			if op == token.EQL {
				return eq
			}
			return e.S.Not(eq)
		}
	case *Agg:
		y, ok := b.(*Agg)
		if ok && (op == token.EQL || op == token.NEQ) {
			eq := e.aggEq(st, x, y, where)
			if op == token.EQL {
				return eq
			}
			return e.S.Not(eq)
		}
	case *Opaque:
		if y, ok := b.(*Opaque); ok {
			eq := e.S.Bool(x.What == y.What)
			if op == token.EQL {
				return eq
			}
			return e.S.Not(eq)
		}
	}
	if _, ok := a.(*Poison); ok {
		return a
	}
	if _, ok := b.(*Poison); ok {
		return b
	}
	panic(&UnsupportedErr{Msg: fmt.Sprintf("binop %v on %T,%T at %s", op, a, b, where)})
}

func (e *Exec) aggEq(st *State, x, y *Agg, where string) *Term {
	var cs []*Term
	for i := range x.Elems {
		et := elemType(x.Typ, i)
		r := e.binop(st, token.EQL, e.aggElem(x, i), e.aggElem(y, i), et, et, where)
		cs = append(cs, e.term(r, "aggEq"))
	}
	return e.S.And(cs...)
}

func (e *Exec) ifaceEq(a, b Val, where string) *Term {
	if x, ok := a.(*IfaceIte); ok {
		return e.S.Ite(x.C, e.ifaceEq(x.A, b, where), e.ifaceEq(x.B, b, where))
	}
	if y, ok := b.(*IfaceIte); ok {
		return e.S.Ite(y.C, e.ifaceEq(a, y.A, where), e.ifaceEq(a, y.B, where))
	}
	x, ok1 := a.(*IfaceV)
	y, ok2 := b.(*IfaceV)
	if !ok1 || !ok2 {
		// comparison iface vs concrete nil pointer etc.
		panic(&UnsupportedErr{Msg: fmt.Sprintf("interface compare %T %T at %s", a, b, where)})
	}
	if x.T == nil || y.T == nil {
		return e.S.Bool(x.T == nil && y.T == nil)
	}
	if !types.Identical(x.T, y.T) {
		return e.S.False
	}
	switch xv := x.V.(type) {
	case *Term:
		return e.S.Eq(xv, y.V.(*Term))
	case *StrV, *StrIte:
		return e.strEq(x.V, y.V)
	case *Ptr:
		return e.S.Bool(e.ptrEq(xv, y.V.(*Ptr)))
	}
	return e.S.Bool(e.valEq(x.V, y.V))
}

func (e *Exec) noteFloatSite(where, what string) {
	e.FloatSites[where] = what
}

func (e *Exec) convert(st *State, v Val, from, to types.Type, where string) Val {
	fu, tu := from.Underlying(), to.Underlying()
	switch {
	case isInteger(from) && isInteger(to):
		return e.F.ConvIntInt(e, st, e.term(v, "conv"), from, to, where)
	case isInteger(from) && isFloat(to):
		return e.F.ConvIntFloat(e.term(v, "conv"), from)
	case isFloat(from) && isInteger(to):
		e.noteFloatSite(where, "float->int")
		return e.F.ConvFloatInt(e, st, e.term(v, "conv"), to, where)
	case isFloat(from) && isFloat(to):
		return v
	case isString(to):
		// string(int), string([]byte), string([]rune)
		if isInteger(from) {
			t := e.term(v, "string(rune)")
			if k, ok := t.ConstInt(); ok {
				return &StrV{Conc: string(rune(k))}
			}
			// assume ASCII
			e.side("ascii-rune", st, e.S.And(e.S.Le(e.S.Int(0), t), e.S.Lt(t, e.S.Int(128))), where)
			return &StrV{Sym: []*Term{t}}
		}
		if sl, ok := v.(*SliceV); ok {
			n, okc := sl.Len.ConstInt()
			if !okc {
				e.unsupported(st, "string(slice) with symbolic length at "+where)
				return &Poison{Why: "string(sym-len slice)"}
			}
			elemIsByte := intBits(fu.(*types.Slice).Elem()) == 8
			bs := make([]*Term, 0, n)
			for i := 0; i < int(n); i++ {
				ev := e.load(st, &Ptr{Obj: sl.Obj, Path: appendStep(sl.Path, Step{Idx: e.slIdx(sl, e.S.Int(int64(i)))})}, where)
				t := e.term(ev, "string(slice) elem")
				if !elemIsByte {
					if k, ok := t.ConstInt(); ok && k >= 128 {
						// encode rune concretely
						for _, c := range []byte(string(rune(k))) {
							bs = append(bs, e.S.Int(int64(c)))
						}
						continue
					}
					if !t.IsConst() {
						e.side("ascii-rune", st, e.S.And(e.S.Le(e.S.Int(0), t), e.S.Lt(t, e.S.Int(128))), where)
					}
				}
				bs = append(bs, t)
			}
			return e.mkStr(bs)
		}
		if _, ok := v.(*StrV); ok {
			return v
		}
		if _, ok := v.(*StrIte); ok {
			return v
		}
	case isString(from):
		if sl, ok := tu.(*types.Slice); ok {
			isByte := intBits(sl.Elem()) == 8
			return e.strMap(v, func(s *StrV) Val {
				var elems []Val
				if s.Sym == nil && !isByte {
					for _, r := range s.Conc {
						elems = append(elems, e.S.Int(int64(r)))
					}
				} else {
					for _, b := range e.strBytes(s) {
						if !isByte && !b.IsConst() {
							e.side("ascii-rune", st, e.S.Lt(b, e.S.Int(128)), where)
						}
						elems = append(elems, b)
					}
				}
				at := types.NewArray(sl.Elem(), int64(len(elems)))
				id := e.newObj(st, at, &Agg{Typ: at, Elems: elems})
				return &SliceV{Obj: id, Len: e.S.Int(int64(len(elems))), Cap: len(elems), Elem: sl.Elem()}
			})
		}
	}
	if _, ok := tu.(*types.Pointer); ok {
		return v // unsafe.Pointer conversions etc.
	}
	if types.Identical(fu, tu) {
		return v
	}
	e.unsupported(st, fmt.Sprintf("convert %s -> %s at %s", from, to, where))
	return &Poison{Why: "convert"}
}

func (e *Exec) typeAssert(st *State, x *ssa.TypeAssert, where string) {
	v := e.get(st, x.X)
	res := e.typeAssertVal(st, v, x, where, e.S.True)
	st.Regs[x] = res
}

func (e *Exec) typeAssertVal(st *State, v Val, x *ssa.TypeAssert, where string, cond *Term) Val {
	if it, ok := v.(*IfaceIte); ok {
		// evaluate both sides under their conditions
		a := e.typeAssertVal(st, it.A, x, where, e.S.And(cond, it.C))
		b := e.typeAssertVal(st, it.B, x, where, e.S.And(cond, e.S.Not(it.C)))
		return e.mergeVal(it.C, a, b)
	}
	iv, ok := v.(*IfaceV)
	if !ok {
		e.badVal(v, "TypeAssert at "+where)
	}
	var okb bool
	var out Val
	if iv.T != nil {
		if types.IsInterface(x.AssertedType) {
			okb = types.Implements(iv.T, x.AssertedType.Underlying().(*types.Interface))
			out = iv
		} else {
			okb = types.Identical(iv.T, x.AssertedType)
			out = iv.V
		}
	}
	if !okb {
		out = e.zeroVal(x.AssertedType)
	}
	if x.CommaOk {
		return TupleV{out, e.S.Bool(okb)}
	}
	if !okb {
		e.abortIf(st, cond, "panic", where)
	}
	return out
}

func (e *Exec) makeSlice(st *State, x *ssa.MakeSlice, where string) {
	ln := e.term(e.get(st, x.Len), "make len")
	cp := e.term(e.get(st, x.Cap), "make cap")
	et := x.Type().Underlying().(*types.Slice).Elem()
	c, ok := cp.ConstInt()
	if !ok {
		if l, ok2 := ln.ConstInt(); ok2 {
			c = l
		} else if cp == ln {
			// make(T, n) with symbolic n: the backing array gets the stated maximum length; a longer
			// slice is outside the bound (side obligation "symlen-bound": unsat = bound sufficient).
			// cap() of such a slice is over-approximated by the maximum.
			c = int64(e.MaxSymLen)
			e.side("symlen-bound", st, e.S.Le(ln, e.S.Int(c)), where)
			e.abortIf(st, e.S.Lt(ln, e.S.Int(0)), "panic", where)
			at := types.NewArray(et, c)
			id := e.newObj(st, at, e.zeroVal(at))
			st.Regs[x] = &SliceV{Obj: id, Len: ln, Cap: int(c), Elem: et}
			return
		} else {
			e.unsupported(st, "make with symbolic capacity at "+where)
			st.Regs[x] = &Poison{Why: "make sym cap"}
			return
		}
	}
	if c < 0 || c > 1<<20 {
		e.abort(st, "panic", where, "makeslice: len out of range")
		st.Regs[x] = &Poison{Why: "make range"}
		return
	}
	at := types.NewArray(et, c)
	id := e.newObj(st, at, e.zeroVal(at))
	if !ln.IsConst() {
		s := e.S
		e.abortIf(st, s.Not(s.And(s.Le(s.Int(0), ln), s.Le(ln, s.Int(c)))), "panic", where)
	}
	st.Regs[x] = &SliceV{Obj: id, Len: ln, Cap: int(c), Elem: et}
}

func (e *Exec) sliceOp(st *State, x *ssa.Slice, where string) {
	base := e.get(st, x.X)
	var lo, hi *Term
	if x.Low != nil {
		lo = e.indexTerm(st, x.Low)
	}
	if x.High != nil {
		hi = e.indexTerm(st, x.High)
	}
	switch b := base.(type) {
	case *StrV, *StrIte:
		st.Regs[x] = e.strMapC(base, e.S.True, func(s *StrV, cond *Term) Val {
			n := strLen(s)
			l, h := 0, n
			if lo != nil {
				k, ok := lo.ConstInt()
				if !ok {
					return e.strSliceSym(st, s, lo, hi, where)
				}
				l = int(k)
			}
			if hi != nil {
				k, ok := hi.ConstInt()
				if !ok {
					return e.strSliceSym(st, s, lo, hi, where)
				}
				h = int(k)
			}
			if l < 0 || h > n || l > h {
				e.abortIf(st, cond, "bounds", where+" string slice out of range")
				return &StrV{}
			}
			if s.Sym == nil {
				return &StrV{Conc: s.Conc[l:h]}
			}
			return e.mkStr(s.Sym[l:h])
		})
		return
	case *Ptr: // pointer to array
		if b.Obj == 0 {
			e.abort(st, "nil", where, "slice of nil array pointer")
			return
		}
		at := x.X.Type().Underlying().(*types.Pointer).Elem().Underlying().(*types.Array)
		n := int(at.Len())
		l := 0
		if lo != nil {
			k, ok := lo.ConstInt()
			if !ok {
				e.unsupported(st, "array slice with symbolic low at "+where)
				st.Regs[x] = &Poison{Why: "sym low"}
				return
			}
			l = int(k)
		}
		hiT := e.S.Int(int64(n))
		if hi != nil {
			hiT = hi
		}
		s := e.S
		e.abortIf(st, s.Not(s.And(s.Le(s.Int(int64(l)), hiT), s.Le(hiT, s.Int(int64(n))))), "bounds", where)
		st.Regs[x] = &SliceV{Obj: b.Obj, Path: b.Path, Off: l, Len: s.Sub(hiT, s.Int(int64(l))), Cap: n - l, Elem: at.Elem()}
		return
	case *SliceV:
		s := e.S
		loT := s.Int(0)
		if lo != nil {
			loT = lo
		}
		hiT := b.Len
		limit := b.Len
		if hi != nil {
			hiT = hi
			limit = s.Int(int64(b.Cap))
			if b.OffT != nil {
				limit = s.Sub(limit, b.OffT)
			}
		}
		e.abortIf(st, s.Not(s.And(s.Le(s.Int(0), loT), s.Le(loT, hiT), s.Le(hiT, limit))), "bounds", where)
		if b.Obj == 0 {
			st.Regs[x] = b
			return
		}
		ns := &SliceV{Obj: b.Obj, Path: b.Path, Off: b.Off, OffT: b.OffT, Len: s.Sub(hiT, loT), Cap: b.Cap, Elem: b.Elem}
		if k, ok := loT.ConstInt(); ok {
			ns.Off += int(k)
			ns.Cap -= int(k)
		} else if ns.OffT == nil {
			ns.OffT = loT
		} else {
			ns.OffT = s.Add(ns.OffT, loT)
		}
		st.Regs[x] = ns
		return
	}
	e.badVal(base, "Slice at "+where)
}

func (e *Exec) strSliceSym(st *State, s *StrV, lo, hi *Term, where string) Val {
	// symbolic bounds: enumerate const-tree leaves
	n := strLen(s)
	if lo == nil {
		lo = e.S.Int(0)
	}
	if hi == nil {
		hi = e.S.Int(int64(n))
	}
	ok := e.S.And(e.S.Le(e.S.Int(0), lo), e.S.Le(lo, hi), e.S.Le(hi, e.S.Int(int64(n))))
	e.abortIf(st, e.S.Not(ok), "bounds", where)
	var res Val
	bs := e.strBytes(s)
	for l := 0; l <= n; l++ {
		cl := e.S.Eq(lo, e.S.Int(int64(l)))
		if cl.IsFalse() {
			continue
		}
		for h := l; h <= n; h++ {
			ch := e.S.Eq(hi, e.S.Int(int64(h)))
			if ch.IsFalse() {
				continue
			}
			v := Val(e.mkStr(bs[l:h]))
			if res == nil {
				res = v
			} else {
				res = e.mergeVal(e.S.And(cl, ch), v, res)
			}
		}
	}
	if res == nil {
		return &StrV{}
	}
	return res
}

func (e *Exec) strIndex(st *State, v Val, idx *Term, where string) Val {
	r := e.strMapC(v, e.S.True, func(s *StrV, cond *Term) Val {
		n := strLen(s)
		ok := e.S.And(e.S.Le(e.S.Int(0), idx), e.S.Lt(idx, e.S.Int(int64(n))))
		e.abortIf(st, e.S.And(cond, e.S.Not(ok)), "bounds", where)
		if n == 0 {
			return e.S.Int(0)
		}
		bs := e.strBytes(s)
		if k, ok := idx.ConstInt(); ok {
			if k < 0 || int(k) >= n {
				return e.S.Int(0)
			}
			return bs[k]
		}
		res := bs[n-1]
		for j := n - 2; j >= 0; j-- {
			res = e.S.Ite(e.S.Eq(idx, e.S.Int(int64(j))), bs[j], res)
		}
		return res
	})
	return r
}

func (e *Exec) strMapT(v Val, f func(*StrV) *Term) *Term {
	switch x := v.(type) {
	case *StrV:
		return f(x)
	case *StrIte:
		return e.S.Ite(x.C, e.strMapT(x.A, f), e.strMapT(x.B, f))
	}
	e.badVal(v, "string op")
	return nil
}

func (e *Exec) strLenT(v Val) *Term {
	return e.strMapT(v, func(s *StrV) *Term { return e.S.Int(int64(strLen(s))) })
}

func (e *Exec) strConcat(a, b Val) Val {
	return e.strMap(a, func(x *StrV) Val {
		return e.strMap(b, func(y *StrV) Val {
			if x.Segs != nil || y.Segs != nil {
				return e.mkSegs(append(append([]Seg{}, e.segsOf(x)...), e.segsOf(y)...))
			}
			if x.Sym == nil && y.Sym == nil {
				return &StrV{Conc: x.Conc + y.Conc}
			}
			return e.mkStr(append(append([]*Term{}, e.strBytes(x)...), e.strBytes(y)...))
		})
	})
}

// ---- maps

func (e *Exec) mapData(st *State, m Val, where string) (*MapV, *MapData) {
	mv, ok := m.(*MapV)
	if !ok {
		e.badVal(m, "map at "+where)
	}
	if mv.Obj == 0 {
		return mv, nil
	}
	return mv, st.Mem[mv.Obj].(*MapData)
}

func (e *Exec) keyEq(a, b Val) *Term {
	switch x := a.(type) {
	case *Term:
		return e.S.Eq(x, b.(*Term))
	case *StrV, *StrIte:
		return e.strEq(a, b)
	case *IfaceV:
		return e.ifaceEq(a, b, "map key")
	case *Agg:
		y, ok := b.(*Agg)
		if ok && len(x.Elems) == len(y.Elems) {
			var cs []*Term
			for i := range x.Elems {
				cs = append(cs, e.keyEq(e.aggElem(x, i), e.aggElem(y, i)))
			}
			return e.S.And(cs...)
		}
	}
	panic(&UnsupportedErr{Msg: fmt.Sprintf("map key of %T", a)})
}

func (e *Exec) pres(md *MapData, i int) *Term {
	if md.Pres == nil || md.Pres[i] == nil {
		return e.S.True
	}
	return md.Pres[i]
}

func (e *Exec) mapUpdate(st *State, m, k, v Val, where string) {
	mv, md := e.mapData(st, m, where)
	if md == nil {
		e.abort(st, "panic", where, "assignment to entry in nil map")
		return
	}
	e.noteSharedWrite(st, mv.Obj, where)
	nd := &MapData{Typ: md.Typ, Keys: append([]Val(nil), md.Keys...), Vals: append([]Val(nil), md.Vals...), Pres: make([]*Term, len(md.Keys))}
	for i := range md.Keys {
		nd.Pres[i] = e.pres(md, i)
	}
	anyEq := e.S.False
	for i, kk := range nd.Keys {
		eq := e.S.And(e.keyEq(kk, k), nd.Pres[i])
		if eq.IsFalse() {
			continue
		}
		nd.Vals[i] = e.mergeVal(eq, v, nd.Vals[i])
		anyEq = e.S.Or(anyEq, eq)
		if eq.IsTrue() {
			break
		}
	}
	if !anyEq.IsTrue() {
		nd.Keys = append(nd.Keys, k)
		nd.Vals = append(nd.Vals, v)
		nd.Pres = append(nd.Pres, e.S.Not(anyEq))
	}
	st.Mem[mv.Obj] = nd
}

func (e *Exec) mapLookup(st *State, m, k Val, vt types.Type, where string) (Val, *Term) {
	_, md := e.mapData(st, m, where)
	zero := e.zeroVal(vt)
	if md == nil {
		return zero, e.S.False
	}
	res := zero
	found := e.S.False
	for i := len(md.Keys) - 1; i >= 0; i-- {
		eq := e.S.And(e.keyEq(md.Keys[i], k), e.pres(md, i))
		if eq.IsFalse() {
			continue
		}
		res = e.mergeVal(eq, md.Vals[i], res)
		found = e.S.Or(eq, found)
		if eq.IsTrue() {
			break
		}
	}
	return res, found
}

func (e *Exec) lookup(st *State, x *ssa.Lookup, where string) {
	base := e.get(st, x.X)
	switch base.(type) {
	case *StrV, *StrIte:
		st.Regs[x] = e.strIndex(st, base, e.indexTerm(st, x.Index), where)
		return
	}
	mt := x.X.Type().Underlying().(*types.Map)
	v, found := e.mapLookup(st, base, e.get(st, x.Index), mt.Elem(), where)
	if x.CommaOk {
		st.Regs[x] = TupleV{v, found}
	} else {
		st.Regs[x] = v
	}
}

// ---- range over map / string

type rangeIter struct {
	keys []Val
	vals []Val
	pos  int
	str  bool
	// maps with conditionally present entries: entries are visited in list order, absent
	// ones are skipped; posT is the (symbolic) index of the next candidate
	pres []*Term
	posT *Term
	// all keys concrete, some entries conditional: entries are visited in sorted key order,
	// each under its presence condition (the block executor skips the body otherwise)
	skip bool
}

func (e *Exec) rangeInit(st *State, x *ssa.Range, where string) {
	base := e.get(st, x.X)
	switch b := base.(type) {
	case *MapV:
		it := &rangeIter{}
		if b.Obj != 0 {
			md := st.Mem[b.Obj].(*MapData)
			symbolic := false
			for i, k := range md.Keys {
				if _, conc := e.keyConc(k); !conc || !e.pres(md, i).IsTrue() {
					symbolic = true
				}
			}
			allConc := true
			for _, k := range md.Keys {
				if _, conc := e.keyConc(k); !conc {
					allConc = false
				}
			}
			if symbolic && allConc {
				it.skip = true
				for _, i := range sortMapKeys(md, e) {
					if e.pres(md, i).IsFalse() {
						continue
					}
					it.keys = append(it.keys, md.Keys[i])
					it.vals = append(it.vals, md.Vals[i])
					it.pres = append(it.pres, e.pres(md, i))
				}
				if e.MapReverse {
					for a, b := 0, len(it.keys)-1; a < b; a, b = a+1, b-1 {
						it.keys[a], it.keys[b] = it.keys[b], it.keys[a]
						it.vals[a], it.vals[b] = it.vals[b], it.vals[a]
						it.pres[a], it.pres[b] = it.pres[b], it.pres[a]
					}
				}
			} else if symbolic {
				for i := range md.Keys {
					if e.pres(md, i).IsFalse() {
						continue
					}
					it.keys = append(it.keys, md.Keys[i])
					it.vals = append(it.vals, md.Vals[i])
					it.pres = append(it.pres, e.pres(md, i))
				}
				it.posT = e.S.Int(0)
			} else {
				for _, i := range sortMapKeys(md, e) {
					it.keys = append(it.keys, md.Keys[i])
					it.vals = append(it.vals, md.Vals[i])
				}
				if e.MapReverse {
					for a, b := 0, len(it.keys)-1; a < b; a, b = a+1, b-1 {
						it.keys[a], it.keys[b] = it.keys[b], it.keys[a]
						it.vals[a], it.vals[b] = it.vals[b], it.vals[a]
					}
				}
			}
		}
		id := e.newObj(st, nil, it)
		st.Regs[x] = &Ptr{Obj: id}
		return
	case *StrV:
		it := &rangeIter{str: true}
		if b.Sym == nil {
			for i, r := range b.Conc {
				it.keys = append(it.keys, e.S.Int(int64(i)))
				it.vals = append(it.vals, e.S.Int(int64(r)))
			}
		} else {
			for i, t := range b.Sym {
				if !t.IsConst() {
					e.side("ascii-rune", st, e.S.Lt(t, e.S.Int(128)), where)
				}
				it.keys = append(it.keys, e.S.Int(int64(i)))
				it.vals = append(it.vals, t)
			}
		}
		id := e.newObj(st, nil, it)
		st.Regs[x] = &Ptr{Obj: id}
		return
	}
	if si, ok := base.(*StrIte); ok {
		// a conditional string whose alternatives are concrete ASCII texts: position i exists iff the actual text is
		// longer than i; its rune is the one of the actual alternative (entries with presence conditions)
		type alt struct {
			bs   []*Term
			cond *Term
		}
		var alts []alt
		okAll := true
		e.strMapC(si, e.S.True, func(sv *StrV, cond *Term) Val {
			if sv.Segs != nil {
				okAll = false
				return sv
			}
			var bs []*Term
			if sv.Sym != nil {
				for _, t := range sv.Sym {
					if !t.IsConst() {
						e.side("ascii-rune", st, e.S.Or(e.S.Not(cond), e.S.Lt(t, e.S.Int(128))), where)
					}
					bs = append(bs, t)
				}
			} else {
				for i := 0; i < len(sv.Conc); i++ {
					if sv.Conc[i] >= 128 {
						okAll = false
					}
					bs = append(bs, e.S.Int(int64(sv.Conc[i])))
				}
			}
			alts = append(alts, alt{bs, cond})
			return sv
		})
		if okAll {
			it := &rangeIter{str: true, skip: true}
			maxLen := 0
			for _, a := range alts {
				if len(a.bs) > maxLen {
					maxLen = len(a.bs)
				}
			}
			for i := 0; i < maxLen; i++ {
				var pres []*Term
				var val *Term = e.S.Int(0)
				for _, a := range alts {
					if len(a.bs) > i {
						pres = append(pres, a.cond)
						val = e.S.Ite(a.cond, a.bs[i], val)
					}
				}
				it.keys = append(it.keys, e.S.Int(int64(i)))
				it.vals = append(it.vals, val)
				it.pres = append(it.pres, e.S.Or(pres...))
			}
			id := e.newObj(st, nil, it)
			st.Regs[x] = &Ptr{Obj: id}
			return
		}
	}
	e.unsupported(st, fmt.Sprintf("range over %T (%s) at %s", base, describeStr(base), where))
	st.Regs[x] = &Poison{Why: "range"}
}

func (e *Exec) rangeNext(st *State, x *ssa.Next, where string) {
	p, ok := e.get(st, x.Iter).(*Ptr)
	if !ok {
		e.badVal(e.get(st, x.Iter), "Next at "+where)
	}
	it := st.Mem[p.Obj].(*rangeIter)
	tt := x.Type().(*types.Tuple)
	if it.pos >= len(it.keys) {
		st.Regs[x] = TupleV{e.S.False, e.zeroVal(tt.At(1).Type()), e.zeroVal(tt.At(2).Type())}
		return
	}
	if it.skip {
		k, v := it.keys[it.pos], it.vals[it.pos]
		if !it.pres[it.pos].IsTrue() {
			st.skipUnless = it.pres[it.pos]
		}
		st.Mem[p.Obj] = &rangeIter{keys: it.keys, vals: it.vals, pres: it.pres, pos: it.pos + 1, skip: true}
		st.Regs[x] = TupleV{e.S.True, k, v}
		return
	}
	if it.posT != nil {
		s := e.S
		n := len(it.keys)
		ok := s.False
		var k, v Val = e.zeroVal(tt.At(1).Type()), e.zeroVal(tt.At(2).Type())
		newPos := s.Int(int64(n))
		none := s.True // no earlier candidate taken
		type cand struct {
			c *Term
			i int
		}
		var cs []cand
		for i := it.pos; i < n; i++ { // every Next consumes at least one entry: candidates start at the call count
			c := s.And(none, it.pres[i], s.Le(it.posT, s.Int(int64(i))))
			none = s.And(none, s.Not(c))
			if c.IsFalse() {
				continue
			}
			cs = append(cs, cand{c, i})
			ok = s.Or(ok, c)
		}
		for j := len(cs) - 1; j >= 0; j-- {
			c, i := cs[j].c, cs[j].i
			k = e.mergeVal(c, it.keys[i], k)
			v = e.mergeVal(c, it.vals[i], v)
			newPos = s.Ite(c, s.Int(int64(i+1)), newPos)
		}
		st.Mem[p.Obj] = &rangeIter{keys: it.keys, vals: it.vals, pres: it.pres, pos: it.pos + 1, posT: newPos}
		st.Regs[x] = TupleV{ok, k, v}
		return
	}
	k, v := it.keys[it.pos], it.vals[it.pos]
	st.Mem[p.Obj] = &rangeIter{keys: it.keys, vals: it.vals, pos: it.pos + 1, str: it.str}
	st.Regs[x] = TupleV{e.S.True, k, v}
}

func (e *Exec) goStmt(st *State, x *ssa.Go, where string) {
	c := x.Common()
	name := "?"
	if f := c.StaticCallee(); f != nil {
		name = f.String()
	}
	// the concrete string arguments identify the launched task (e.g. the log id of a batch line)
	tag := "|"
	for _, a := range c.Args {
		if s, ok := e.concStr(e.get(st, a)); ok {
			tag += s + "|"
		}
	}
	e.Outs = append(e.Outs, OutEvent{Guard: st.G, Chan: "go:" + name, Text: &StrV{Conc: tag}})
}
