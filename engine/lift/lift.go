// Package lift extracts a statement range of a (possibly huge) function into a
// stand-alone function whose body is the source text verbatim, so that the
// symbolic executor and the native replay both run the real statements.
// Anchors are structural (function name + textual prefix of a statement),
// never line numbers; the lifted code is regenerated from the current tree on
// every run.
package lift

import (
	"fmt"
	"go/ast"
	"go/token"
	"go/types"
	"os"
	"sort"
	"strconv"
	"strings"

	"golang.org/x/tools/go/packages"
)

type Select struct {
	From     string `json:"from"`      // first statement of the range (text prefix)
	To       string `json:"to"`        // last statement of the range (text prefix); empty = same as From
	Until    string `json:"until"`     // with From: first statement AFTER the range (text prefix), in the same block
	BodyOf   string `json:"body_of"`   // statements of the body of the loop/if matched
	ThroughLoop string `json:"through_loop_containing"` // with from: the region runs up to and including the header of the first following for statement whose body holds a statement with this prefix; that loop's body is replaced by the iteration counter
	HeaderOf string `json:"header_of"` // the for statement matched with its body replaced by an iteration counter (zzHeaderCount, stops after zzHeaderLimit)
	Before   string `json:"before"`    // all statements of the enclosing block before the match
	After    string `json:"after"`     // all statements of the enclosing block after the match
	Nth      int    `json:"nth"`       // use the n-th match (0 = must be unique)
	Count    int    `json:"count"`     // with After: only the next Count statements
	ToNth    int    `json:"to_nth"`
}

type Region struct {
	Name   string   `json:"name"`
	Func   string   `json:"func"`       // FuncDecl name, or Type.Method
	Select Select   `json:"select"`     // which statements
	Alt    []Select `json:"select_alt"` // fall-back anchors (tried in order when the primary one no longer matches)
	ZeroOK []string `json:"zero_ok"`    // free variables that may be read although the harness does not supply them (zero value is the intended input)
	Writes []string `json:"writes"`     // fingerprint recorded on the unchanged tree: assigned lvalues and called functions;
	// statements selected through a fall-back anchor must still cover them, else the region counts as not found
	usedAlt bool
	Expose  []string `json:"expose"` // variables declared inside the region to hand out through pointers
	Params  []string `json:"params"` // optional fixed parameter order of the generated function; free variables
	// not listed become zero-initialised locals (keeps the harness compiling when the code gains a variable)
}

type Result struct {
	Auto   map[string]Auto   // per region: current parameter order and neighbour anchors
	Source string            // generated Go file
	Sigs   map[string]string // region name -> signature (informational)
	Hash   map[string]string
}

func norm(s string) string { return strings.Join(strings.Fields(s), " ") }

type lifter struct {
	pkg            *packages.Package
	fset           *token.FileSet
	src            map[string][]byte
	auto           map[string]Auto
	needHeaderVars bool
}

// Auto: what the lifter found for a region on the current tree, used to pin the harness interface
// (parameter order) and to derive fall-back anchors from the neighbouring statements.
type Auto struct {
	Params []string `json:"params"`
	Alt    []Select `json:"select_alt"`
	Writes []string `json:"writes"`
}

func (l *lifter) text(n ast.Node) string {
	p, e := l.fset.Position(n.Pos()), l.fset.Position(n.End())
	return string(l.file(p.Filename)[p.Offset:e.Offset])
}

func (l *lifter) file(name string) []byte {
	if b, ok := l.src[name]; ok {
		return b
	}
	b, err := os.ReadFile(name)
	if err != nil {
		panic(err)
	}
	l.src[name] = b
	return b
}

// Generate loads the package in dir (with the given environment) and lifts the regions.
func Generate(dir string, env []string, regions []Region) (*Result, error) {
	cfg := &packages.Config{Mode: packages.NeedName | packages.NeedFiles | packages.NeedSyntax | packages.NeedTypes | packages.NeedTypesInfo | packages.NeedImports | packages.NeedDeps,
		Dir: dir, Env: env}
	pkgs, err := packages.Load(cfg, ".")
	if err != nil {
		return nil, err
	}
	if len(pkgs) != 1 {
		return nil, fmt.Errorf("expected one package in %s", dir)
	}
	pkg := pkgs[0]
	if len(pkg.Errors) > 0 {
		return nil, fmt.Errorf("package errors: %v", pkg.Errors[0])
	}
	l := &lifter{pkg: pkg, fset: pkg.Fset, src: map[string][]byte{}, auto: map[string]Auto{}}
	res := &Result{Sigs: map[string]string{}, Hash: map[string]string{}, Auto: l.auto}
	imports := map[string]string{} // path -> name
	var bodies []string
	for _, r := range regions {
		code, sig, err := l.liftOne(r, imports)
		for _, alt := range r.Alt {
			if err == nil {
				break
			}
			r2 := r
			r2.Select = alt
			r2.usedAlt = true
			var err2 error
			code, sig, err2 = l.liftOne(r2, imports)
			if err2 == nil {
				err = nil
			}
		}
		if err != nil {
			return nil, fmt.Errorf("region %s: %v", r.Name, err)
		}
		bodies = append(bodies, code)
		res.Sigs[r.Name] = sig
	}
	var sb strings.Builder
	fmt.Fprintf(&sb, "// Code generated by symgo lift from the current source tree. DO NOT EDIT.\n\npackage %s\n\n", pkg.Name)
	var paths []string
	for p := range imports {
		paths = append(paths, p)
	}
	sort.Strings(paths)
	if len(paths) > 0 {
		sb.WriteString("import (\n")
		for _, p := range paths {
			fmt.Fprintf(&sb, "\t%s %q\n", imports[p], p)
		}
		sb.WriteString(")\n\n")
	}
	if l.needHeaderVars {
		sb.WriteString("// iteration counter and limit of loops lifted with header_of (the loop body is replaced by the counter)\nvar zzHeaderCount, zzHeaderLimit int\n\n")
	}
	for _, b := range bodies {
		sb.WriteString(b)
		sb.WriteString("\n")
	}
	res.Source = sb.String()
	return res, nil
}

func (l *lifter) findFunc(name string) (*ast.FuncDecl, error) {
	recv := ""
	fn := name
	if i := strings.Index(name, "."); i >= 0 {
		recv, fn = name[:i], name[i+1:]
	}
	for _, f := range l.pkg.Syntax {
		for _, d := range f.Decls {
			fd, ok := d.(*ast.FuncDecl)
			if !ok || fd.Name.Name != fn || fd.Body == nil {
				continue
			}
			if recv == "" && fd.Recv == nil {
				return fd, nil
			}
			if recv != "" && fd.Recv != nil && len(fd.Recv.List) == 1 {
				t := l.text(fd.Recv.List[0].Type)
				if strings.TrimPrefix(t, "*") == recv {
					return fd, nil
				}
			}
		}
	}
	return nil, fmt.Errorf("function %s not found", name)
}

type match struct {
	list  []ast.Stmt // enclosing statement list
	idx   int
	encl  ast.Node // innermost enclosing FuncDecl / FuncLit
	loops int      // number of enclosing loops inside encl
}

// findStmt returns all statements (at any depth) whose normalised text starts with pat.
func (l *lifter) findStmt(fd *ast.FuncDecl, pat string) []match {
	pat = norm(pat)
	var out []match
	var walkList func(list []ast.Stmt, encl ast.Node)
	var walkStmt func(s ast.Stmt, encl ast.Node)
	var walkExprFuncs func(n ast.Node)
	walkExprFuncs = func(n ast.Node) {
		ast.Inspect(n, func(x ast.Node) bool {
			if fl, ok := x.(*ast.FuncLit); ok {
				walkList(fl.Body.List, fl)
				return false
			}
			if _, ok := x.(ast.Stmt); ok && x != n {
				return false
			}
			return true
		})
	}
	walkList = func(list []ast.Stmt, encl ast.Node) {
		for i, s := range list {
			if strings.HasPrefix(norm(l.text(s)), pat) {
				out = append(out, match{list: list, idx: i, encl: encl})
			}
			walkStmt(s, encl)
		}
	}
	walkStmt = func(s ast.Stmt, encl ast.Node) {
		switch x := s.(type) {
		case *ast.BlockStmt:
			walkList(x.List, encl)
		case *ast.IfStmt:
			if x.Init != nil {
				walkExprFuncs(x.Init)
			}
			walkExprFuncs(x.Cond)
			walkList(x.Body.List, encl)
			if x.Else != nil {
				walkStmt(x.Else, encl)
			}
		case *ast.ForStmt:
			walkList(x.Body.List, encl)
		case *ast.RangeStmt:
			walkList(x.Body.List, encl)
		case *ast.SwitchStmt:
			for _, c := range x.Body.List {
				walkList(c.(*ast.CaseClause).Body, encl)
			}
		case *ast.TypeSwitchStmt:
			for _, c := range x.Body.List {
				walkList(c.(*ast.CaseClause).Body, encl)
			}
		case *ast.SelectStmt:
			for _, c := range x.Body.List {
				walkList(c.(*ast.CommClause).Body, encl)
			}
		case *ast.LabeledStmt:
			walkStmt(x.Stmt, encl)
		default:
			walkExprFuncs(s)
		}
	}
	walkList(fd.Body.List, fd)
	return out
}

func pick(ms []match, nth int, pat string) (match, error) {
	if len(ms) == 0 {
		return match{}, fmt.Errorf("anchor %q not found", pat)
	}
	if nth > 0 {
		if nth > len(ms) {
			return match{}, fmt.Errorf("anchor %q: only %d matches", pat, len(ms))
		}
		return ms[nth-1], nil
	}
	if len(ms) > 1 {
		return match{}, fmt.Errorf("anchor %q is ambiguous (%d matches)", pat, len(ms))
	}
	return ms[0], nil
}

func (l *lifter) liftOne(r Region, imports map[string]string) (string, string, error) {
	fd, err := l.findFunc(r.Func)
	if err != nil {
		return "", "", err
	}
	var stmts []ast.Stmt
	var encl ast.Node
	loopBody := false
	headerMode := false
	sel := r.Select
	switch {
	case sel.BodyOf != "":
		m, err := pick(l.findStmt(fd, sel.BodyOf), sel.Nth, sel.BodyOf)
		if err != nil {
			return "", "", err
		}
		encl = m.encl
		switch x := m.list[m.idx].(type) {
		case *ast.ForStmt:
			stmts = x.Body.List
			loopBody = true
		case *ast.RangeStmt:
			stmts = x.Body.List
			loopBody = true
		case *ast.IfStmt:
			stmts = x.Body.List
		default:
			return "", "", fmt.Errorf("body_of: statement is %T", x)
		}
	case sel.HeaderOf != "":
		m, err := pick(l.findStmt(fd, sel.HeaderOf), sel.Nth, sel.HeaderOf)
		if err != nil {
			return "", "", err
		}
		encl = m.encl
		x, ok := m.list[m.idx].(*ast.ForStmt)
		if !ok {
			return "", "", fmt.Errorf("header_of: statement is %T", m.list[m.idx])
		}
		y := *x
		y.Body = &ast.BlockStmt{Lbrace: x.Body.Lbrace, Rbrace: x.Body.Lbrace}
		stmts = []ast.Stmt{&y}
		headerMode = true
	case sel.Before != "":
		m, err := pick(l.findStmt(fd, sel.Before), sel.Nth, sel.Before)
		if err != nil {
			return "", "", err
		}
		encl = m.encl
		stmts = m.list[:m.idx]
		if sel.Count > 0 && sel.Count < len(stmts) {
			stmts = stmts[len(stmts)-sel.Count:]
		}
	case sel.After != "":
		m, err := pick(l.findStmt(fd, sel.After), sel.Nth, sel.After)
		if err != nil {
			return "", "", err
		}
		encl = m.encl
		stmts = m.list[m.idx+1:]
		if sel.Count > 0 && sel.Count < len(stmts) {
			stmts = stmts[:sel.Count]
		}
	case sel.From != "":
		m, err := pick(l.findStmt(fd, sel.From), sel.Nth, sel.From)
		if err != nil {
			return "", "", err
		}
		encl = m.encl
		end := m.idx
		if sel.To != "" {
			found := -1
			cnt := 0
			for j := m.idx; j < len(m.list); j++ {
				if strings.HasPrefix(norm(l.text(m.list[j])), norm(sel.To)) {
					cnt++
					if sel.ToNth == 0 || cnt == sel.ToNth {
						found = j
						break
					}
				}
			}
			if found < 0 {
				return "", "", fmt.Errorf("end anchor %q not found after start in the same block", sel.To)
			}
			end = found
		} else if sel.ThroughLoop != "" {
			found := -1
			for j := m.idx + 1; j < len(m.list) && found < 0; j++ {
				if fs, ok := m.list[j].(*ast.ForStmt); ok {
					for _, bs := range fs.Body.List {
						if strings.HasPrefix(norm(l.text(bs)), norm(sel.ThroughLoop)) {
							found = j
							break
						}
					}
				}
			}
			if found < 0 {
				return "", "", fmt.Errorf("no following loop holds a statement %q", sel.ThroughLoop)
			}
			x := m.list[found].(*ast.ForStmt)
			y := *x
			y.Body = &ast.BlockStmt{Lbrace: x.Body.Lbrace, Rbrace: x.Body.Lbrace}
			stmts = append(append([]ast.Stmt{}, m.list[m.idx:found]...), &y)
			headerMode = true
			end = -1
		} else if sel.Until != "" {
			found := -1
			for j := m.idx + 1; j < len(m.list); j++ {
				if strings.HasPrefix(norm(l.text(m.list[j])), norm(sel.Until)) {
					found = j
					break
				}
			}
			if found < 0 {
				return "", "", fmt.Errorf("until anchor %q not found after start in the same block", sel.Until)
			}
			end = found - 1
		}
		if end >= 0 {
			stmts = m.list[m.idx : end+1]
		}
	default:
		return "", "", fmt.Errorf("empty selection")
	}
	if len(stmts) == 0 {
		return "", "", fmt.Errorf("selection is empty")
	}
	// "writes": what the selected statements assign to (selector/identifier texts such as g.ZTDG, NDu) and which
	// functions they call: a fingerprint that must still be covered when a fall-back anchor is used
	writeSet := map[string]bool{}
	var lvalRoot func(e ast.Expr) string
	lvalRoot = func(e ast.Expr) string {
		switch x := e.(type) {
		case *ast.Ident:
			return x.Name
		case *ast.SelectorExpr:
			if b := lvalRoot(x.X); b != "" {
				return b + "." + x.Sel.Name
			}
		case *ast.IndexExpr:
			return lvalRoot(x.X)
		case *ast.ParenExpr:
			return lvalRoot(x.X)
		case *ast.StarExpr:
			return lvalRoot(x.X)
		}
		return ""
	}
	for _, st := range stmts {
		ast.Inspect(st, func(n ast.Node) bool {
			switch x := n.(type) {
			case *ast.AssignStmt:
				for _, lh := range x.Lhs {
					if w := lvalRoot(lh); w != "" && w != "_" {
						writeSet[w] = true
					}
				}
			case *ast.IncDecStmt:
				if w := lvalRoot(x.X); w != "" {
					writeSet[w] = true
				}
			case *ast.CallExpr:
				if w := lvalRoot(x.Fun); w != "" {
					writeSet["call "+w] = true
				}
			}
			return true
		})
	}
	var writes []string
	for w := range writeSet {
		writes = append(writes, w)
	}
	sort.Strings(writes)
	if r.usedAlt {
		for _, w := range r.Writes {
			if !writeSet[w] {
				return "", "", fmt.Errorf("fall-back anchor selected statements that do not touch %q (the region was moved or rewritten)", w)
			}
		}
	}
	var autoAlt []Select
	if l.auto != nil && sel.BodyOf == "" {
		// enclosing list and position of the selection
		var list []ast.Stmt
		first := -1
		for _, m := range l.findStmt(fd, norm(l.text(stmts[0]))) {
			if m.list[m.idx] == stmts[0] {
				list, first = m.list, m.idx
			}
		}
		uniquePrefix := func(st ast.Stmt) string {
			t := norm(l.text(st))
			for _, n := range []int{48, 80, 120, 200} {
				if n > len(t) {
					n = len(t)
				}
				pat := t[:n]
				if len(l.findStmt(fd, pat)) == 1 {
					return pat
				}
				if n == len(t) {
					break
				}
			}
			return ""
		}
		if first > 0 {
			if pat := uniquePrefix(list[first-1]); pat != "" {
				autoAlt = append(autoAlt, Select{After: pat, Count: len(stmts)})
			}
		}
		if first >= 0 && first+len(stmts) < len(list) {
			if pat := uniquePrefix(list[first+len(stmts)]); pat != "" {
				autoAlt = append(autoAlt, Select{Before: pat, Count: len(stmts)})
			}
		}
	}
	start, end := stmts[0].Pos(), stmts[len(stmts)-1].End()
	info := l.pkg.TypesInfo
	pkgScope := l.pkg.Types.Scope()

	// free variables
	type fv struct {
		obj   *types.Var
		byRef bool
		uses  []*ast.Ident
	}
	free := map[*types.Var]*fv{}
	var order []*types.Var
	assigned := map[*ast.Ident]bool{}
	var markAssigned func(e ast.Expr)
	markAssigned = func(e ast.Expr) {
		switch x := e.(type) {
		case *ast.Ident:
			assigned[x] = true
		case *ast.SelectorExpr:
			if tv, ok := l.pkg.TypesInfo.Types[x.X]; ok {
				if _, isPtr := tv.Type.Underlying().(*types.Pointer); isPtr {
					return // write through a pointer does not change the variable itself
				}
			}
			markAssigned(x.X)
		case *ast.IndexExpr:
			if tv, ok := l.pkg.TypesInfo.Types[x.X]; ok {
				switch tv.Type.Underlying().(type) {
				case *types.Slice, *types.Map, *types.Pointer:
					return
				}
			}
			markAssigned(x.X)
		case *ast.ParenExpr:
			markAssigned(x.X)
		}
	}
	exposeSet := map[string]bool{}
	for _, n := range r.Expose {
		exposeSet[n] = true
	}
	exposed := map[string]*types.Var{}
	for _, s := range stmts {
		ast.Inspect(s, func(n ast.Node) bool {
			switch x := n.(type) {
			case *ast.AssignStmt:
				if x.Tok != token.DEFINE {
					for _, lh := range x.Lhs {
						markAssigned(lh)
					}
				} else {
					for _, lh := range x.Lhs { // := may re-assign existing vars
						markAssigned(lh)
					}
				}
			case *ast.IncDecStmt:
				markAssigned(x.X)
			case *ast.UnaryExpr:
				if x.Op == token.AND {
					markAssigned(x.X)
				}
			case *ast.RangeStmt:
				if x.Key != nil {
					markAssigned(x.Key)
				}
				if x.Value != nil {
					markAssigned(x.Value)
				}
			}
			return true
		})
	}
	for _, s := range stmts {
		ast.Inspect(s, func(n ast.Node) bool {
			id, ok := n.(*ast.Ident)
			if !ok {
				return true
			}
			if d, ok := info.Defs[id].(*types.Var); ok && d != nil && exposeSet[id.Name] && d.Parent() != nil {
				if _, seen := exposed[id.Name]; !seen {
					exposed[id.Name] = d
				}
			}
			obj, ok := info.Uses[id].(*types.Var)
			if !ok || obj.IsField() {
				return true
			}
			if obj.Parent() == pkgScope || obj.Pkg() != l.pkg.Types {
				return true
			}
			if obj.Pos() >= start && obj.Pos() < end {
				return true // declared inside the region
			}
			f := free[obj]
			if f == nil {
				f = &fv{obj: obj}
				free[obj] = f
				order = append(order, obj)
			}
			f.uses = append(f.uses, id)
			if assigned[id] {
				f.byRef = true
			}
			// struct / array variables are always shared: writes to fields, elements and
			// pointer-receiver method calls must reach the caller's variable
			switch obj.Type().Underlying().(type) {
			case *types.Struct, *types.Array:
				f.byRef = true
			}
			return true
		})
	}
	sort.Slice(order, func(i, j int) bool { return order[i].Pos() < order[j].Pos() })

	qual := func(p *types.Package) string {
		if p == l.pkg.Types {
			return ""
		}
		imports[p.Path()] = p.Name()
		return p.Name()
	}
	// imports used by the region's own text
	for _, s := range stmts {
		ast.Inspect(s, func(n ast.Node) bool {
			if id, ok := n.(*ast.Ident); ok {
				if pn, ok := info.Uses[id].(*types.PkgName); ok {
					imports[pn.Imported().Path()] = pn.Name()
				}
			}
			return true
		})
	}

	// results of the enclosing function
	var sig *types.Signature
	switch x := encl.(type) {
	case *ast.FuncDecl:
		sig = info.Defs[x.Name].Type().(*types.Signature)
	case *ast.FuncLit:
		sig = info.TypeOf(x).(*types.Signature)
	}
	var resTypes []string
	for i := 0; i < sig.Results().Len(); i++ {
		resTypes = append(resTypes, types.TypeString(sig.Results().At(i).Type(), qual))
	}

	// text rewriting
	type edit struct {
		off, end int
		text     string
	}
	var edits []edit
	file := l.fset.Position(start).Filename
	src := l.file(file)
	base := l.fset.Position(start).Offset
	for _, obj := range order {
		f := free[obj]
		if !f.byRef {
			continue
		}
		for _, id := range f.uses {
			o := l.fset.Position(id.Pos()).Offset
			edits = append(edits, edit{o, o + len(id.Name), "(*zp_" + id.Name + ")"})
		}
	}
	// return / break / continue rewriting
	var ctlErr error
	var walk func(n ast.Node, brk, cont int)
	walk = func(n ast.Node, brk, cont int) {
		ast.Inspect(n, func(x ast.Node) bool {
			if ctlErr != nil || x == nil {
				return false
			}
			if x == n {
				return true
			}
			switch s := x.(type) {
			case *ast.FuncLit:
				return false // returns inside nested closures are their own
			case *ast.ForStmt:
				if s.Init != nil {
					walk(s.Init, brk, cont)
				}
				if s.Post != nil {
					walk(s.Post, brk, cont)
				}
				walk(s.Body, brk+1, cont+1)
				return false
			case *ast.RangeStmt:
				walk(s.Body, brk+1, cont+1)
				return false
			case *ast.SwitchStmt:
				if s.Init != nil {
					walk(s.Init, brk, cont)
				}
				walk(s.Body, brk+1, cont)
				return false
			case *ast.TypeSwitchStmt:
				walk(s.Body, brk+1, cont)
				return false
			case *ast.SelectStmt:
				walk(s.Body, brk+1, cont)
				return false
			case *ast.ReturnStmt:
				o, e := l.fset.Position(s.Pos()).Offset, l.fset.Position(s.End()).Offset
				if len(s.Results) == 0 && len(resTypes) > 0 {
					ctlErr = fmt.Errorf("bare return with named results is not supported")
					return false
				}
				if len(s.Results) == 0 {
					edits = append(edits, edit{o, e, "return 3"})
				} else {
					// zero-width insertion so that identifier rewrites inside the results survive
					edits = append(edits, edit{e, e, ", 3"})
				}
				return true
			case *ast.BranchStmt:
				if s.Label != nil {
					ctlErr = fmt.Errorf("labelled %s is not supported in a region", s.Tok)
					return false
				}
				if s.Tok == token.GOTO || s.Tok == token.FALLTHROUGH {
					if s.Tok == token.GOTO {
						ctlErr = fmt.Errorf("goto is not supported in a region")
					}
					return false
				}
				leaves := (s.Tok == token.BREAK && brk == 0) || (s.Tok == token.CONTINUE && cont == 0)
				if leaves {
					if !loopBody {
						ctlErr = fmt.Errorf("%s leaves the region", s.Tok)
						return false
					}
					o, e := l.fset.Position(s.Pos()).Offset, l.fset.Position(s.End()).Offset
					code := "1"
					if s.Tok == token.BREAK {
						code = "2"
					}
					edits = append(edits, edit{o, e, "return " + zeroResults(resTypes) + code})
				}
				return false
			}
			return true
		})
	}
	for _, s := range stmts {
		// wrap so that the statement itself is inspected as a child
		walk(&ast.BlockStmt{List: []ast.Stmt{s}}, 0, 0)
	}
	if ctlErr != nil {
		return "", "", ctlErr
	}
	sort.SliceStable(edits, func(i, j int) bool { return edits[i].off > edits[j].off })
	endOff := l.fset.Position(end).Offset
	body := append([]byte{}, src[base:endOff]...)
	for _, e := range edits {
		if e.off < base || e.end > endOff {
			continue
		}
		body = append(body[:e.off-base], append([]byte(e.text), body[e.end-base:]...)...)
	}

	if headerMode {
		body = append(body, []byte("\n\t\tzzHeaderCount++\n\t\tif zzHeaderCount > zzHeaderLimit {\n\t\t\tbreak\n\t\t}\n\t}")...)
		l.needHeaderVars = true
	}
	// signature
	var params []string
	for _, obj := range order {
		f := free[obj]
		ts := types.TypeString(obj.Type(), qual)
		if f.byRef {
			params = append(params, "zp_"+obj.Name()+" *"+ts)
		} else {
			params = append(params, obj.Name()+" "+ts)
		}
	}
	var exposeNames []string
	for n := range exposed {
		exposeNames = append(exposeNames, n)
	}
	sort.Strings(exposeNames)
	for _, n := range exposeNames {
		params = append(params, "zx_"+n+" *"+types.TypeString(exposed[n].Type(), qual))
	}
	for _, n := range r.Expose {
		if _, ok := exposed[n]; !ok {
			return "", "", fmt.Errorf("exposed variable %s is not declared in the region", n)
		}
	}
	if l.auto != nil {
		var names []string
		for _, obj := range order {
			names = append(names, obj.Name())
		}
		for _, n := range exposeNames {
			names = append(names, "&"+n)
		}
		l.auto[r.Name] = Auto{Params: names, Alt: autoAlt, Writes: writes}
	}
	results := append(append([]string{}, resTypes...), "int")
	fname := r.Name
	var wrapper string
	if len(r.Params) > 0 {
		fname = r.Name + "_raw"
		type pinfo struct{ decl, pass string }
		byName := map[string]pinfo{}
		var passOrder []string
		for _, obj := range order {
			f := free[obj]
			ts := types.TypeString(obj.Type(), qual)
			if f.byRef {
				byName[obj.Name()] = pinfo{"zp_" + obj.Name() + " *" + ts, "zp_" + obj.Name()}
			} else {
				byName[obj.Name()] = pinfo{obj.Name() + " " + ts, obj.Name()}
			}
			passOrder = append(passOrder, obj.Name())
		}
		for _, n := range exposeNames {
			byName["&"+n] = pinfo{"zx_" + n + " *" + types.TypeString(exposed[n].Type(), qual), "zx_" + n}
			passOrder = append(passOrder, "&"+n)
		}
		listed := map[string]bool{}
		zeroOK := map[string]bool{}
		for _, n := range r.ZeroOK {
			zeroOK[n] = true
		}
		var wp []string
		// "#k" names the k-th parameter (1-based) of the enclosing function, so that a rename
		// of that parameter in the repository does not break the harness
		var fparams []string
		if fd.Type.Params != nil {
			for _, fl := range fd.Type.Params.List {
				for _, nm := range fl.Names {
					fparams = append(fparams, nm.Name)
				}
			}
		}
		for _, n := range r.Params {
			if strings.HasPrefix(n, "#") {
				k, err := strconv.Atoi(n[1:])
				if err != nil || k < 1 || k > len(fparams) {
					return "", "", fmt.Errorf("positional parameter %s: enclosing function has %d parameters", n, len(fparams))
				}
				n = fparams[k-1]
			}
			// "name:type" gives the parameter's type in the harness' call, so that the harness keeps compiling when
			// the repository no longer has that variable in the region (it is then an unused parameter)
			fallbackType := ""
			if k := strings.Index(n, ":"); k > 0 {
				n, fallbackType = n[:k], n[k+1:]
			}
			pi, ok := byName[n]
			if !ok && fallbackType != "" {
				wp = append(wp, "zz_gone_"+n+" "+fallbackType)
				continue
			}
			if !ok {
				return "", "", fmt.Errorf("listed parameter %s is not a free variable of the region", n)
			}
			listed[n] = true
			wp = append(wp, pi.decl)
		}
		var wb strings.Builder
		fmt.Fprintf(&wb, "func %s(%s) (%s) {\n", r.Name, strings.Join(wp, ", "), strings.Join(results, ", "))
		var passArgs []string
		for _, n := range passOrder {
			pi := byName[n]
			if listed[n] {
				passArgs = append(passArgs, pi.pass)
				continue
			}
			// a free variable the harness does not know: zero-initialised local. That is only sound when the
			// region assigns the variable before it reads it; a region that reads an input the harness does not
			// supply cannot be judged (the enclosing function computes that value outside the region)
			if !strings.HasPrefix(n, "&") && !zeroOK[n] {
				if rd := readBeforeWrite(stmts, n, info); rd {
					return "", "", fmt.Errorf("the region reads %q, which the enclosing function computes outside the region and the harness does not supply (region interface changed)", n)
				}
			}
			parts := strings.SplitN(pi.decl, " ", 2)
			if strings.HasPrefix(parts[1], "*") && (strings.HasPrefix(parts[0], "zp_") || strings.HasPrefix(parts[0], "zx_")) {
				fmt.Fprintf(&wb, "\tvar zz_%s %s\n", parts[0], strings.TrimPrefix(parts[1], "*"))
				passArgs = append(passArgs, "&zz_"+parts[0])
			} else {
				fmt.Fprintf(&wb, "\tvar zz_%s %s\n", parts[0], parts[1])
				passArgs = append(passArgs, "zz_"+parts[0])
			}
		}
		fmt.Fprintf(&wb, "\treturn %s(%s)\n}\n", fname, strings.Join(passArgs, ", "))
		wrapper = wb.String()
	}
	sigText := fmt.Sprintf("func %s(%s) (%s)", fname, strings.Join(params, ", "), strings.Join(results, ", "))
	var sb strings.Builder
	fmt.Fprintf(&sb, "// %s: lifted from %s (%s), statements %q .. %q\n", r.Name, r.Func, shortFile(file), firstLine(norm(l.text(stmts[0]))), firstLine(norm(l.text(stmts[len(stmts)-1]))))
	sb.WriteString(sigText + " {\n")
	sb.Write(body)
	sb.WriteString("\n")
	for _, n := range exposeNames {
		fmt.Fprintf(&sb, "\t*zx_%s = %s\n", n, n)
	}
	// variables declared at the top level of the region may only be used after it
	for _, st := range stmts {
		switch x := st.(type) {
		case *ast.AssignStmt:
			if x.Tok == token.DEFINE {
				for _, lh := range x.Lhs {
					if id, ok := lh.(*ast.Ident); ok && id.Name != "_" && info.Defs[id] != nil {
						fmt.Fprintf(&sb, "\t_ = %s\n", id.Name)
					}
				}
			}
		case *ast.DeclStmt:
			if gd, ok := x.Decl.(*ast.GenDecl); ok && gd.Tok == token.VAR {
				for _, sp := range gd.Specs {
					if vs, ok := sp.(*ast.ValueSpec); ok {
						for _, id := range vs.Names {
							if id.Name != "_" {
								fmt.Fprintf(&sb, "\t_ = %s\n", id.Name)
							}
						}
					}
				}
			}
		}
	}
	// silence "declared and not used" for by-value params is unnecessary (params may be unused)
	fmt.Fprintf(&sb, "\treturn %s0\n}\n", zeroResults(resTypes))
	if wrapper != "" {
		sb.WriteString("\n" + wrapper)
	}
	return sb.String(), sigText, nil
}

func zeroResults(resTypes []string) string {
	var parts []string
	for _, t := range resTypes {
		parts = append(parts, "*new("+t+")")
	}
	if len(parts) == 0 {
		return ""
	}
	return strings.Join(parts, ", ") + ", "
}

func shortFile(f string) string {
	if i := strings.LastIndex(f, "/"); i >= 0 {
		return f[i+1:]
	}
	return f
}

func firstLine(s string) string {
	if len(s) > 60 {
		return s[:60]
	}
	return s
}

// readBeforeWrite reports whether the statements may read the variable called name (declared outside) before a
// top-level plain assignment has given it a value. Conservative: any mention other than as the sole target of a
// top-level "name = expr" (expr not mentioning name) counts as a read.
func readBeforeWrite(stmts []ast.Stmt, name string, info *types.Info) bool {
	mentions := func(n ast.Node) bool {
		found := false
		ast.Inspect(n, func(x ast.Node) bool {
			if id, ok := x.(*ast.Ident); ok && id.Name == name {
				if v, ok := info.Uses[id].(*types.Var); ok && !v.IsField() {
					found = true
				}
			}
			return !found
		})
		return found
	}
	for _, st := range stmts {
		if as, ok := st.(*ast.AssignStmt); ok && as.Tok == token.ASSIGN {
			target := false
			for _, lh := range as.Lhs {
				if id, ok := lh.(*ast.Ident); ok && id.Name == name {
					target = true
				}
			}
			if target {
				for _, rh := range as.Rhs {
					if mentions(rh) {
						return true
					}
				}
				for _, lh := range as.Lhs {
					if id, ok := lh.(*ast.Ident); ok && id.Name == name {
						continue
					}
					if mentions(lh) {
						return true
					}
				}
				return false
			}
		}
		if mentions(st) {
			return true
		}
	}
	return false
}
