package hermes

// C10 / C16: the part of Input that reads the irrigation schedule and the crop rotation and then fixes the
// simulation start (region zzR_SchedulesAndRotation: from the irrigation block to "g.BEGINN = g.ERNTE[0]",
// lifted verbatim), with fixed-date management (all automatic switches off).
// Files are line lists with concrete field ids / crop codes and numeric tokens for amounts and dates; g.Datum
// is a harness function returning the token's (symbolic) day number (the real converter is decided under C12).
//   - rotation: the crops of the simulated field are taken in file order with their own sowing and harvest
//     dates, also when lines of another field lie between them (gap == 1); the start is the first harvest;
//   - irrigation: events dated before the simulation start are ignored, the others are kept in order.

import (
	"bufio"
	"fmt"
	"os"
	"strconv"
)

func init() {
	vRegister("zzC10InputSchedules", func(a []int) { zzC10InputSchedules(a[0], a[1]) })
}

var zzIFiles = map[string][]string{}

func zzIOpen(s *HermesSession, fd *FileDescriptior) (*os.File, *bufio.Scanner, error) {
	lines := zzIFiles[fd.FilePath]
	return nil, vScanner(lines, len(lines)), nil
}

var zzICrops = []string{"WW", "SM", "WRA", "ZR"}

// k crops of the rotation (2..3); gap: a line of another field between the field's lines
func zzC10InputSchedules(k, gap int) {
	gv := NewGlobalVarsMain()
	g := &gv
	g.Session = NewHermesSession()
	l := new(InputSharedVars)
	g.PKT = "F1"
	l.IRRIGAT = true
	g.AUTOIRRI, g.AUTOFERT, g.AUTOHAR, g.AUTOMAN = false, false, false, false
	g.Datum = func(s string) (int, int) {
		v, err := strconv.Atoi(s)
		vAssert("C10.schedules.date_token_read_whole", err == nil)
		return v % 366, v
	}
	var sow, har [4]int
	rot := []string{"Field_ID crop sowing harvest Rex yld autorg variety", "F0 WW 100 200 100 50 0 x"}
	prev := 1000
	for j := 0; j < k; j++ {
		sow[j], har[j] = vInt("sow", j), vInt("har", j)
		vAssume(sow[j] > prev && har[j] > sow[j] && har[j] <= 80000) // rotation files are in date order
		prev = har[j]
		rot = append(rot, "F1 "+zzICrops[j]+" "+vIntText("sow", j)+" "+vIntText("har", j)+" "+vFloatText("rex", j)+" "+vFloatText("yld", j)+" 0 v"+fmt.Sprint(j))
		if gap == 1 && j == 0 {
			rot = append(rot, "F2 SM 300 400 100 50 0 y")
		}
	}
	rot = append(rot, "F2 ZR 500 600 100 50 0 z")
	var irrd [3]int
	irr := []string{"Field_ID Ir N03 date", "F0 5 5 150"}
	for i := 0; i < 2; i++ {
		irrd[i] = vInt("irrdate", i)
		vAssume(irrd[i] >= 1 && irrd[i] <= 80000)
		if i > 0 {
			vAssume(irrd[i] > irrd[i-1])
		}
		irr = append(irr, "F1 "+vFloatText("irrmm", i)+" "+vFloatText("irrn", i)+" "+vIntText("irrdate", i))
	}
	irr = append(irr, "F2 7 7 250")
	var hp HFilePath
	hp.irrigation, hp.crop = "irr.txt", "rot.txt"
	if vSymbolic() {
		zzIFiles = map[string][]string{"irr.txt": irr, "rot.txt": rot}
	} else {
		dir, err := os.MkdirTemp("", "zzsched")
		if err != nil {
			panic(err)
		}
		defer os.RemoveAll(dir)
		put := func(name string, lines []string) string {
			text := ""
			for _, ln := range lines {
				text += ln + "\n"
			}
			p := dir + "/" + name
			if err := os.WriteFile(p, []byte(text), 0o644); err != nil {
				panic(err)
			}
			return p
		}
		hp.irrigation, hp.crop = put("irr.txt", irr), put("rot.txt", rot)
	}
	cfg := NewDefaultConfig()
	err, ctl := zzR_SchedulesAndRotation(g, l, &hp, &cfg)
	vAssert("C16.rotation.region_falls_through", ctl == 0 && err == nil)
	vCover("C16.rotation.reach")
	for j := 0; j < k; j++ {
		vAssert("C16.rotation.crops_in_file_order", g.FRUCHT[j] == g.ToCropType(zzICrops[j]))
		vAssert("C16.rotation.harvest_on_file_date", g.ERNTE[j] == har[j])
		if j > 0 {
			vAssert("C16.rotation.sowing_on_file_date", g.SAAT[j] == sow[j])
		}
	}
	vAssert("C10.schedules.start_is_first_harvest", g.BEGINN == har[0])
	kept := 0
	for i := 0; i < 2; i++ {
		if irrd[i] >= har[0] {
			kept++
		}
	}
	{
		vAssert("C10.schedules.irrigation_before_start_ignored", l.ANZBREG == kept)
		for i := 0; i < 2; i++ {
			if irrd[i] >= har[0] {
				j := i - (2 - kept)
				vAssert("C10.schedules.irrigation_kept_in_order", g.ZTBR[j] == irrd[i] && g.BREG[j] == vFloat("irrmm", i) && g.BRKZ[j] == vFloat("irrn", i))
			}
		}
	}
	vObserveInt("beginn", g.BEGINN)
	vObserveInt("anzbreg", l.ANZBREG)
}
