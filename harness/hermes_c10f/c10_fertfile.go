package hermes

// C10: the fertiliser schedule reader of Input (from opening the file to the same-day shift, lifted verbatim:
// region zzR_FertRead) on a file with k events of the simulated field between lines of other fields.
// Dates are numeric tokens (the day number they stand for is symbolic: g.Datum is a harness function that
// returns the token's value, the real converter is decided under C12), amounts are numeric tokens.
// Obligations: events before the simulation start are dropped, the others are kept in file order with
// their amount (times the fertilisation factor) and type, the stored dates are strictly ascending, never
// before the scheduled date and at most one day after it (at most two events share a day).

import (
	"bufio"
	"fmt"
	"os"
	"strconv"
)

func init() {
	vRegister("zzC10FertFile", func(a []int) { zzC10FertFile(a[0]) })
	vRegister("zzC10TillFile", func(a []int) { zzC10TillFile(a[0]) })
}

var zzFLines []string

func zzFOpen(s *HermesSession, fd *FileDescriptior) (*os.File, *bufio.Scanner, error) {
	return nil, vScanner(zzFLines, len(zzFLines)), nil
}

func zzC10FertFile(k int) {
	g := new(GlobalVarsMain)
	l := new(InputSharedVars)
	g.Session = NewHermesSession()
	g.PKT = "F1"
	g.Datum = func(s string) (int, int) {
		v, err := strconv.Atoi(s)
		if err != nil {
			panic("date token")
		}
		return 0, v
	}
	g.BEGINN = vInt("beginn")
	vAssume(g.BEGINN >= 1000 && g.BEGINN <= 70000)
	g.DUNGSZEN = vFloat("factor")
	vAssume(g.DUNGSZEN > 0 && g.DUNGSZEN <= 2)
	var date [8]int
	zzFLines = []string{"Field_ID  N  Frt  date", "F0 50 KAS 20000"}
	for i := 0; i < k; i++ {
		date[i] = vInt("date", i)
		vAssume(date[i] >= 1 && date[i] <= 80000)
		if i > 0 {
			vAssume(date[i] >= date[i-1]) // schedule files are in date order
		}
		if i > 1 {
			vAssume(date[i] > date[i-2]) // at most two events on one day
		}
		zzFLines = append(zzFLines, "F1 "+vFloatText("n", i)+" T"+fmt.Sprint(i)+" "+vIntText("date", i))
	}
	zzFLines = append(zzFLines, "F2 60 KAS 30000", "F2 60 KAS 30010")
	var hp HFilePath
	hp.dun = "fert.txt"
	if !vSymbolic() {
		// natively the real Session.Open reads a real file
		dir, err := os.MkdirTemp("", "zzfert")
		if err != nil {
			panic(err)
		}
		defer os.RemoveAll(dir)
		text := ""
		for _, ln := range zzFLines {
			text += ln + "\n"
		}
		hp.dun = dir + "/fert.txt"
		if err := os.WriteFile(hp.dun, []byte(text), 0o644); err != nil {
			panic(err)
		}
	}
	var NDu int
	_, ctl := zzR_FertRead(g, l, &hp, &NDu)
	vAssert("C10.fertfile.falls_through", ctl == 0)
	vCover("C10.fertfile.reach")
	// number of events before the start (a prefix, dates ascending)
	dropped := 0
	for i := 0; i < k; i++ {
		if date[i] < g.BEGINN {
			dropped++
		}
	}
	vAssert("C10.fertfile.events_before_start_dropped_others_kept", NDu == 1+k-dropped)
	pairs := 0
	for i := 1; i < k; i++ {
		if date[i] == date[i-1] && date[i] >= g.BEGINN {
			pairs++
		}
	}
	for i := 0; i < k; i++ {
		if date[i] < g.BEGINN {
			continue
		}
		j := 1 + i - dropped // slot of event i (slot 0 is the start-day slot)
		vAssert("C10.fertfile.amount_and_type_kept_in_order", l.DGMG[j] == vFloat("n", i)*g.DUNGSZEN && g.DGART[j] == "T"+fmt.Sprint(i))
		vAssert("C10.fertfile.not_before_scheduled_date", g.ZTDG[j] >= date[i])
		if pairs <= 1 {
			vAssert("C10.fertfile.at_most_one_day_late", g.ZTDG[j] <= date[i]+1)
		}
		if j > 1 {
			vAssert("C10.fertfile.dates_strictly_ascending", g.ZTDG[j] > g.ZTDG[j-1])
		}
		vObserveInt("ztdg", g.ZTDG[j])
	}
	if k >= 3 && dropped > 0 && pairs > 0 {
		vCover("C10.fertfile.cover_prestart_and_same_day")
	}
}

// C10: the tillage schedule reader of Input (region zzR_TillRead, from opening the file to the same-day shift).
// Besides the obligations of the fertiliser reader: the slot behind the last kept event must not hold a date that
// the tillage cursor (which fires on the day after EINTE[next]) can still reach, i.e. an event before the
// simulation start must be ignored also when it is the last event of the field.
func zzC10TillFile(k int) {
	g := new(GlobalVarsMain)
	g.Session = NewHermesSession()
	g.PKT = "F1"
	g.Datum = func(s string) (int, int) {
		v, err := strconv.Atoi(s)
		vAssert("C10.tillfile.date_token_ok", err == nil)
		return 0, v
	}
	g.BEGINN = vInt("beginn")
	vAssume(g.BEGINN >= 1000 && g.BEGINN <= 70000)
	var date [8]int
	zzFLines = []string{"tillage", "Field_ID depth type date", "F0 20 1 20000"}
	for i := 0; i < k; i++ {
		date[i] = vInt("date", i)
		vAssume(date[i] >= 1 && date[i] <= 80000)
		if i > 0 {
			vAssume(date[i] >= date[i-1])
		}
		if i > 1 {
			vAssume(date[i] > date[i-2])
		}
		zzFLines = append(zzFLines, "F1 "+vFloatText("depth", i)+" "+fmt.Sprint(i+1)+" "+vIntText("date", i))
	}
	zzFLines = append(zzFLines, "F2 25 1 30000")
	var NRTIL int
	_, ctl := zzR_TillRead(g, vScanner(zzFLines, len(zzFLines)), "til.txt", &NRTIL)
	vAssert("C10.tillfile.falls_through", ctl == 0)
	vCover("C10.tillfile.reach")
	dropped := 0
	for i := 0; i < k; i++ {
		if date[i] < g.BEGINN {
			dropped++
		}
	}
	vAssert("C10.tillfile.events_before_start_dropped_others_kept", NRTIL == k-dropped)
	pairs := 0
	for i := 1; i < k; i++ {
		if date[i] == date[i-1] && date[i] >= g.BEGINN {
			pairs++
		}
	}
	for i := 0; i < k; i++ {
		if date[i] < g.BEGINN {
			continue
		}
		j := 1 + i - dropped
		vAssert("C10.tillfile.depth_and_type_kept_in_order", g.EINT[j-1] == vFloat("depth", i) && g.TILART[j-1] == i+1)
		vAssert("C10.tillfile.not_before_scheduled_date", g.EINTE[j] >= date[i])
		if pairs <= 1 {
			vAssert("C10.tillfile.at_most_one_day_late", g.EINTE[j] <= date[i]+1)
		}
		if j > 1 {
			vAssert("C10.tillfile.dates_strictly_ascending", g.EINTE[j] > g.EINTE[j-1])
		}
	}
	// the cursor carries out slot NRTIL+1 on the day after its date: nothing may be left there that a simulated day reaches
	vAssert("C10.tillfile.no_reachable_date_behind_the_last_event", g.EINTE[NRTIL+1]+1 < g.BEGINN || g.EINTE[NRTIL+1] == 0)
	vObserveInt("nrtil", NRTIL)
	vObserveInt("stale", g.EINTE[NRTIL+1])
}
