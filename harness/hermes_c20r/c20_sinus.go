package hermes

import "math"

// C20: groundwater level from the polygon file's min/max levels: set-up (lifted from Input)
// and daily update (lifted from the day loop of Run).

func init() {
	vRegister("zzC20Sinus", func(a []int) { zzC20Sinus() })
}

func zzTwoDigits(name string) (string, int) {
	a := vByte(name, 0)
	b := vByte(name, 1)
	vAssume(a >= '0' && a <= '9' && b >= '0' && b <= '9')
	return string([]byte{a, b}), int(a-'0')*10 + int(b-'0')
}

func zzC20Sinus() {
	g := NewGlobalVarsMain()
	g.GROUNDWATERFROM = Polygonfile
	// witnesses for the extremes of the sinusoid (90 and 270 degrees)
	vLemmaPoint("Sin", 90*math.Pi/180)
	vLemmaPoint("Sin", 270*math.Pi/180)
	hiS, hi := zzTwoDigits("hi")
	loS, lo := zzTwoDigits("lo")
	// the two levels in either order (the polygon file names them high and low, a file may list the deeper one first)
	tokens := []string{"poly", "sid", "x", hiS, loS}
	_, ctl := zzR_GWSetup(&g, tokens)
	vAssert("C20.sinus.setup_falls_through", ctl == 0)
	vCover("C20.sinus.reach")
	mean := float64(hi+lo) / 2
	vAssert("C20.sinus.mean_and_amplitude", g.GW == mean && g.AMPL == float64(lo-hi)/2 && g.GRW == mean)
	mn, mx := float64(hi), float64(lo)
	if mn > mx {
		mn, mx = mx, mn
	}
	// daily update on an arbitrary day of the year with an arbitrary phase shift
	doy := vInt("doy")
	vAssume(doy >= 1 && doy <= 366)
	g.TAG = NewDualType(0, 1)
	g.TAG.SetByIndex(doy - 1)
	g.GWPhase = vInt("phase")
	vAssume(g.GWPhase >= -366 && g.GWPhase <= 366)
	ZEIT := vInt("zeit")
	_, ctl = zzR_GWDaily(&g, ZEIT)
	vAssert("C20.sinus.daily_falls_through", ctl == 0)
	vObserve("grw", g.GRW)
	eps := 1e-9
	vAssert("C20.sinus.level_within_min_max", g.GRW >= mn-eps && g.GRW <= mx+eps)
	vAssert("C20.sinus.oscillates_around_mean", vAbs(g.GRW-mean) <= (mx-mn)/2+eps)
	// it does oscillate: the level of the day is the mean minus the amplitude times the sine of (day + phase) degrees
	if (doy+g.GWPhase)%180 != 0 {
		vAssert("C20.sinus.level_follows_the_sinusoid_of_day_plus_phase", vNear(g.GRW, mean-float64(lo-hi)/2*math.Sin((float64(doy)+float64(g.GWPhase))*math.Pi/180), eps))
	}
	if hi > lo {
		vCover("C20.sinus.cover_deeper_level_listed_first")
	}
}
