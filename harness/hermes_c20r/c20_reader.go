package hermes

// C20: the groundwater time series reader (ReadGroundWaterTimeSeries, real code) on a file with k records of the
// simulated soil between records of other soils: every record of the soil becomes a support point (date -> level)
// in file order, whatever the levels are (also equal levels on consecutive dates), records of other soils are
// ignored; then GetGroundWaterLevel on every given date returns the level of that record.
// Dates are numeric tokens (g.Datum returns the token's value; the real converter is decided under C12).

import (
	"bufio"
	"os"
	"strconv"
)

func init() {
	vRegister("zzC20Reader", func(a []int) { zzC20Reader(a[0], a[1]) })
}

var zzGWLines []string

func zzGWOpen(s *HermesSession, fd *FileDescriptior) (*os.File, *bufio.Scanner, error) {
	return nil, vScanner(zzGWLines, len(zzGWLines)), nil
}

// sep: 0 comma separated, 1 semicolon separated
func zzC20Reader(k, sep int) {
	g := new(GlobalVarsMain)
	g.Session = NewHermesSession()
	g.Datum = func(s string) (int, int) {
		v, err := strconv.Atoi(s)
		if err != nil {
			panic("date token")
		}
		return 0, v
	}
	c := []string{",", ";"}[sep]
	zzGWLines = []string{"SID" + c + "Date" + c + "Level", "S0" + c + "20000" + c + "7", "S10" + c + "20001" + c + "8"}
	var date [8]int
	var level [8]float64
	for i := 0; i < k; i++ {
		date[i] = vInt("date", i)
		level[i] = vFloat("level", i)
		vAssume(date[i] >= 1 && date[i] <= 80000 && level[i] >= 0 && level[i] <= 100)
		if i > 0 {
			vAssume(date[i] > date[i-1]) // series files are in date order
		}
		zzGWLines = append(zzGWLines, "S1"+c+vIntText("date", i)+c+vFloatText("level", i))
		if i == 0 {
			zzGWLines = append(zzGWLines, "S2"+c+"30000"+c+"9")
		}
	}
	zzGWLines = append(zzGWLines, "S11"+c+"30010"+c+"9")
	var hp HFilePath
	hp.gwtimeseries = "gw.csv"
	if !vSymbolic() {
		dir, err := os.MkdirTemp("", "zzgw")
		if err != nil {
			panic(err)
		}
		defer os.RemoveAll(dir)
		text := ""
		for _, ln := range zzGWLines {
			text += ln + "\n"
		}
		hp.gwtimeseries = dir + "/gw.csv"
		if err := os.WriteFile(hp.gwtimeseries, []byte(text), 0o644); err != nil {
			panic(err)
		}
	}
	err := ReadGroundWaterTimeSeries(g, &hp, "S1")
	vCover("C20.reader.reach")
	vAssert("C20.reader.series_of_the_soil_is_found", err == nil)
	vAssert("C20.reader.one_support_point_per_record", len(g.GWTimestamps) == k)
	for i := 0; i < k && i < len(g.GWTimestamps); i++ {
		vAssert("C20.reader.support_points_in_file_order", g.GWTimestamps[i] == date[i])
	}
	for i := 0; i < k; i++ {
		lv, e := GetGroundWaterLevel(g, date[i])
		vAssert("C20.reader.level_on_a_given_date_is_the_series_value", e == nil && lv == level[i])
		vObserve("level", lv)
	}
	if k >= 2 && level[0] == level[1] {
		vCover("C20.reader.cover_plateau")
	}
	// a soil that has no record is reported
	g2 := new(GlobalVarsMain)
	g2.Session = g.Session
	g2.Datum = g.Datum
	err2 := ReadGroundWaterTimeSeries(g2, &hp, "S3")
	vAssert("C20.reader.soil_without_series_is_an_error", err2 != nil)
}
