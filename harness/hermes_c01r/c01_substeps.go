package hermes

// C01: the sub-step count / sub-step length selection of the day loop, lifted verbatim
// from (*HermesSession).Run (regions zzR_SubstepA, zzR_SubstepB in specs/C01.json).

import "math"

func init() {
	vRegister("zzC01Substeps", func(a []int) { zzC01Substeps(a[0], a[1]) })
}

// bit != 0: obligations meant for the bit-precise (IEEE double / int64) encoding
func zzC01Substeps(n, bit int) {
	g := NewGlobalVarsMain()
	g.N = n
	g.DZ = NewDualType(10, 0)
	g.DT = NewDualType(1, 0)
	g.TAG = NewDualType(3, 1)
	g.FLUSS0 = vFloat("fluss0")
	vAssume(-5 <= g.FLUSS0 && g.FLUSS0 <= 50)
	g.REGEN[3] = vFloat("regen")
	vAssume(0 <= g.REGEN[3] && g.REGEN[3] <= 50) // up to 500 mm/d
	for i := 0; i < n; i++ {
		g.W[i] = vFloat("w", i)
		vAssume(0.02 <= g.W[i] && g.W[i] < 1)
		g.WG[0][i] = vFloat("wg", i)
		vAssume(0.001 <= g.WG[0][i] && g.WG[0][i] < 1)
	}
	var FSCSUM [20]float64
	var WDT, ZSR, STEPS float64
	_, ctl := zzR_SubstepA(&WDT, &FSCSUM, &g, &ZSR)
	vAssert("C01.substeps.region_a_falls_through", ctl == 0)
	vObserve("zsr", ZSR)
	vObserve("wdt", WDT)
	_, ctl = zzR_SubstepB(&WDT, &g, &STEPS)
	vAssert("C01.substeps.region_b_falls_through", ctl == 0)
	vCover("C01.substeps.reach")
	vObserve("steps", STEPS)
	k := int(STEPS)
	// the number of executed sub-steps times their length is exactly one day
	if bit == 0 {
		vAssert("C01.substeps.count_times_length_is_one_day", vNear(float64(k)*WDT, g.DT.Num, 1e-12))
	} else {
		// bit level: the executed count is exactly ceil(ZSR) and the length exactly its reciprocal;
		// count*length = 1 up to one rounding then follows from the exact-arithmetic obligation above
		vAssert("C01.substeps.length_is_reciprocal_of_count", k == 1 && WDT == 1 || WDT == 1/math.Ceil(ZSR))
	}
	vAssert("C01.substeps.at_least_one", k >= 1 && WDT > 0 && WDT <= 1)
	vAssert("C01.substeps.count_is_ceiling_of_demand", float64(k) == math.Ceil(ZSR))
	if ZSR > 8 {
		vCover("C01.substeps.cover_extreme_rain_refinement")
	}
}
