package hermes

// C01: the sub-step count / sub-step length selection of the day loop, lifted verbatim
// from (*HermesSession).Run (regions zzR_SubstepA, zzR_SubstepB in specs/C01.json).

import "math"

func init() {
	vRegister("zzC01Substeps", func(a []int) { zzC01Substeps(a[0], a[1]) })
	vRegister("zzC01ConstantGWDay", func(a []int) { zzC01ConstantGWDay(a[0], a[1]) })
}

// bit != 0: obligations meant for the bit-precise (IEEE double / int64) encoding
func zzC01Substeps(n, bit int) {
	g := NewGlobalVarsMain()
	g.N = n
	g.DZ = NewDualType(10, 0)
	g.DT = NewDualType(1, 0)
	g.TAG = NewDualType(3, 1)
	g.FLUSS0 = vFloat("fluss0")
	vAssume(-5 <= g.FLUSS0 && g.FLUSS0 <= 50)
	g.REGEN[3] = vFloat("regen")
	vAssume(0 <= g.REGEN[3] && g.REGEN[3] <= 50) // up to 500 mm/d
	for i := 0; i < n; i++ {
		g.W[i] = vFloat("w", i)
		vAssume(0.02 <= g.W[i] && g.W[i] < 1)
		g.WG[0][i] = vFloat("wg", i)
		vAssume(0.001 <= g.WG[0][i] && g.WG[0][i] < 1)
	}
	var FSCSUM [20]float64
	var WDT, ZSR, STEPS float64
	_, ctl := zzR_SubstepA(&WDT, &FSCSUM, &g, &ZSR)
	vAssert("C01.substeps.region_a_falls_through", ctl == 0)
	vObserve("zsr", ZSR)
	vObserve("wdt", WDT)
	_, ctl = zzR_SubstepB(&WDT, &g, &STEPS)
	vAssert("C01.substeps.region_b_falls_through", ctl == 0)
	vCover("C01.substeps.reach")
	vObserve("steps", STEPS)
	k := int(STEPS)
	// the number of executed sub-steps times their length is exactly one day
	if bit == 0 {
		vAssert("C01.substeps.count_times_length_is_one_day", vNear(float64(k)*WDT, g.DT.Num, 1e-12))
	} else {
		// bit level: the executed count is exactly ceil(ZSR) and the length exactly its reciprocal;
		// count*length = 1 up to one rounding then follows from the exact-arithmetic obligation above
		vAssert("C01.substeps.length_is_reciprocal_of_count", k == 1 && WDT == 1 || WDT == 1/math.Ceil(ZSR))
	}
	vAssert("C01.substeps.at_least_one", k >= 1 && WDT > 0 && WDT <= 1)
	vAssert("C01.substeps.count_is_ceiling_of_demand", float64(k) == math.Ceil(ZSR))
	if ZSR > 8 {
		vCover("C01.substeps.cover_extreme_rain_refinement")
	}
}

// C01: on a day on which the groundwater level does not change, the groundwater part of the day loop (from
// reading the level to the automatic-irrigation block, lifted verbatim) neither changes the water stored in
// any layer nor the hydraulic parameters: the hand-over of the water state between days creates no water.
// src 0: level from the soil file (constant); 1: sinusoid with zero amplitude
func zzC01ConstantGWDay(n, src int) {
	g := NewGlobalVarsMain()
	g.N = n
	g.DZ = NewDualType(10, 0)
	g.TAG = NewDualType(100, 1)
	g.PTF = 0
	g.CAPPAR = 1
	g.GRW = vFloat("grw")
	vAssume(g.GRW >= 1 && g.GRW <= 30)
	if src == 0 {
		g.GROUNDWATERFROM = Soilfile
	} else {
		g.GROUNDWATERFROM = Polygonfile
		g.GW = g.GRW
		g.AMPL = 0
		g.GWPhase = 80
	}
	var w0, wg0, wg1 [4]float64
	for i := 0; i < n; i++ {
		g.W[i], g.WMIN[i], g.PORGES[i], g.WNOR[i] = vFloat("w", i), vFloat("wmin", i), vFloat("p", i), vFloat("wnor", i)
		g.WG[0][i], g.WG[1][i] = vFloat("wg0", i), vFloat("wg1", i)
		w0[i], wg0[i], wg1[i] = g.W[i], g.WG[0][i], g.WG[1][i]
	}
	var inp InputSharedVars
	var hp HFilePath
	ZEIT := vInt("zeit")
	vAssume(ZEIT > 100 && ZEIT < 70000)
	_, ctl := zzR_GWDay(&g, &inp, &hp, ZEIT)
	vCover("C01.gwday.reach")
	vAssert("C01.gwday.falls_through", ctl == 0)
	for i := 0; i < n; i++ {
		vAssert("C01.gwday.water_state_untouched_when_level_constant", g.WG[0][i] == wg0[i] && g.WG[1][i] == wg1[i])
		vAssert("C01.gwday.field_capacity_untouched_when_level_constant", g.W[i] == w0[i])
	}
	vObserve("wg1", g.WG[1][0])
}
