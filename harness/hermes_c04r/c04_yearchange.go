package hermes

func init() {
	vRegister("zzC04YearChangeDay", func(a []int) { zzC04YearChangeDay(a[0]) })
}

// the first day of a new year (roll-over and reload, lifted together as region zzR_DayStart): after the last day
// of 2003 the arrays hold the records of 2004 (a leap year) under their own day, including 30 and 31 December,
// although 2005 is loaded as well
func zzC04YearChangeDay(format int) {
	g := NewGlobalVarsMain()
	g.DT = NewDualType(1, 0)
	g.TAG = NewDualType(0, 1)
	g.TAG.SetByIndex(364) // yesterday: 31 December 2003
	g.JTAG = 365
	g.J = 103
	JZ := 1
	bbb := NewWeatherDataShared(3, 400)
	bbb.JAR[0], bbb.JAR[1], bbb.JAR[2] = 2003, 2004, 2005
	bbb.MaxYearDays[0], bbb.MaxYearDays[1], bbb.MaxYearDays[2] = 365, 366, 365
	days := []int{0, 1, 363, 364, 365}
	for y := 0; y < 3; y++ {
		for _, d := range days {
			if d < bbb.MaxYearDays[y] {
				bbb.REG[y][d] = vFloat("reg", y, d)
				bbb.TMP[y][d] = vFloat("tmp", y, d)
				bbb.WIN[y][d] = vFloat("win", y, d)
			}
		}
	}
	var dri Config
	dri.WeatherFileFormat = format
	var hp HFilePath
	err, ctl := zzR_DayStart(&g, &JZ, &hp, &dri, &bbb)
	vCover("C04.yearchange.reach")
	vAssert("C04.yearchange.falls_through", ctl == 0 && err == nil)
	vAssert("C04.yearchange.first_day_of_2004", g.J == 104 && g.TAG.Index == 0 && JZ == 2 && g.JTAG == 366)
	for _, d := range days {
		vAssert("C04.yearchange.every_day_of_the_new_year_has_its_own_record", g.REGEN[d] == vFloat("reg", 1, d) && g.TEMP[d] == vFloat("tmp", 1, d) && g.WIND[d] == vFloat("win", 1, d))
	}
	vObserve("regen365", g.REGEN[365])
}
