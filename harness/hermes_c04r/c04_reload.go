package hermes

// C04: year roll-over and weather reload of the day loop (regions lifted from Run).

func init() {
	vRegister("zzC04Rollover", func(a []int) { zzC04Rollover() })
	vRegister("zzC04Reload", func(a []int) { zzC04Reload(a[0]) })
}

// day / year counters: from a consistent calendar state the roll-over code yields the
// consistent state of the next day and triggers the reload exactly on 1 January
func zzC04Rollover() {
	g := NewGlobalVarsMain()
	g.DT = NewDualType(1, 0)
	g.TAG = NewDualType(0, 1)
	doy := vInt("doy") // day of year of yesterday (1-based)
	jtag := vInt("jtag")
	vAssume(jtag == 365 || jtag == 366)
	vAssume(doy >= 1 && doy <= jtag)
	g.TAG.SetByIndex(doy - 1)
	g.JTAG = jtag
	g.J = vInt("j")
	vAssume(g.J >= 1 && g.J <= 199)
	JZ := vInt("jz")
	vAssume(JZ >= 0 && JZ <= 300)
	j0, jz0 := g.J, JZ
	_, ctl := zzR_Rollover(&g, &JZ)
	vCover("C04.rollover.reach")
	vAssert("C04.rollover.falls_through", ctl == 0)
	vObserveInt("tagindex", g.TAG.Index)
	if doy < jtag {
		vAssert("C04.rollover.next_day_same_year", g.TAG.Index+1 == doy+1 && g.J == j0 && JZ == jz0)
		vAssert("C04.rollover.no_reload_inside_year", g.TAG.Num != g.DT.Num)
	} else {
		vCover("C04.rollover.cover_new_year")
		vAssert("C04.rollover.first_day_of_next_year", g.TAG.Index+1 == 1 && g.J == j0+1 && JZ == jz0+1)
		vAssert("C04.rollover.reload_on_new_year", g.TAG.Num == g.DT.Num)
	}
	vAssert("C04.rollover.dual_counter_in_step", g.TAG.Num == float64(g.TAG.Index+1))
}

// the reload block: a year that is not loaded (or a year file that cannot be read) ends the run
func zzC04Reload(format int) {
	g := NewGlobalVarsMain()
	g.DT = NewDualType(1, 0)
	g.TAG = NewDualType(0, 1) // 1 January: TAG.Num == DT.Num
	g.J = vInt("j")
	vAssume(g.J >= 1 && g.J <= 199)
	bbb := NewWeatherDataShared(2, 400)
	bbb.MaxYearDays[0], bbb.MaxYearDays[1] = 2, 2
	bbb.JAR[0] = vInt("jar0")
	vAssume(bbb.JAR[0] >= 1901 && bbb.JAR[0] <= 2098)
	bbb.JAR[1] = bbb.JAR[0] + 1
	var dri Config
	dri.WeatherFileFormat = format
	var hp HFilePath
	err, ctl := zzR_Reload(&g, &hp, &dri, &bbb)
	vCover("C04.reload.reach")
	year := 1900 + g.J
	loaded := year == bbb.JAR[0] || year == bbb.JAR[1]
	if !loaded {
		vCover("C04.reload.cover_year_not_loaded")
		if !vKnown("C04-loadyear-error-discarded") {
			vAssert("C04.reload.missing_year_ends_run_with_error", ctl == 3 && err != nil)
		}
	} else if format != 0 {
		vAssert("C04.reload.loaded_year_continues", ctl == 0 && g.JTAG == 2)
	}
}
