package hermes

// C16: harvest is not later than the configured latest harvest date - also for a crop that has not emerged yet.
// The whole of PhytoOut (real code, not cut into regions) is executed on a day that is neither the sowing day nor
// a day of an emerged crop; the crop and soil state is a fixed plain one (it does not matter for the dates), the
// day, the latest harvest date and the next crop's sowing dates are symbolic. With automatic harvest (harvest date
// still open) the day before the latest harvest date fixes the harvest for the next day.
//   emerged 0: temperature sum of the first stage not reached (the development and growth part is skipped)
//   emerged 1: crop in its second stage, far from maturity

func init() {
	vRegister("zzC16LatestHarvest", func(a []int) { zzC16LatestHarvest(a[0]) })
}

func zzC16LatestHarvest(emerged int) {
	g := new(GlobalVarsMain)
	l := new(CropSharedVars)
	g.N = 10
	g.DZ = NewDualType(10, 0)
	g.DT = NewDualType(1, 0)
	g.AKF = NewDualType(1, 1)
	g.TAG = NewDualType(300, 1)
	g.LAT = 52
	g.managementConfig = &ManagementConfig{}
	g.Kalender = KalenderConverter(DateDElong, ".")
	g.FRUCHT[1] = WW
	l.NRENTW = 4
	g.NRKOM = 4
	l.AboveGroundOrgans = []int{2, 3, 4}
	for s := 0; s < 4; s++ {
		g.TSUM[s] = 300
		g.BAS[s] = 1
		g.LAIFKT[s] = 0.002
		g.WGMAX[s] = 0.02
		for i := 0; i < 4; i++ {
			g.PRO[s][i] = 0.25
		}
	}
	g.INTWICK = NewDualType(-1, 1)
	if emerged == 1 {
		g.INTWICK.SetByIndex(1)
		g.SUM[0], g.SUM[1] = 301, 50
		g.PHYLLO = 50
		g.LAI = 1
		g.GEHOB = 0.04
		g.GEHMIN, g.GEHMAX = 0.03, 0.05
		g.NGEFKT = 1
		g.MAXAMAX = 40
		g.MINTMP = 4
		g.REDUK, g.TRREL = 1, 1
		l.temptyp = 1
	} else {
		g.INTWICK.SetByIndex(0)
		g.SUM[0] = 100
	}
	g.TEMP[300], g.RAD[300] = 3, 2
	g.WORG = [5]float64{50, 50, 10, 0, 0}
	g.MAIRT[0], g.MAIRT[1], g.MAIRT[2], g.MAIRT[3] = 0.01, 0.03, 0.015, 0.01
	g.OBMAS, g.WUMAS, g.WUGEH = 60, 50, 0.01
	g.PESUM = 3
	g.WURZMAX, g.WUMAXPF, g.VELOC = 10, 11, 0.004
	g.GRW = 30
	for i := 0; i < 10; i++ {
		g.C1[i], g.WG[0][i], g.W[i], g.WMIN[i], g.AD[i] = 5, 0.2, 0.3, 0.1, 0.002
	}
	zeit := vInt("zeit")
	vAssume(zeit >= 30000 && zeit <= 40000)
	g.SAAT[1] = zeit - 20
	g.ERNTE2[1] = vInt("latest_harvest")
	vAssume(g.ERNTE2[1] >= zeit-5 && g.ERNTE2[1] <= zeit+5)
	g.ERNTE[1] = 0 // automatic harvest: date still open
	g.SAAT[2], g.SAAT2[2] = vInt("next_sowing"), vInt("next_sowing_end")
	vAssume(g.SAAT[2] >= 0 && g.SAAT2[2] >= g.SAAT[2] && g.SAAT2[2] <= 50000)
	g.MAXHMOI[1], g.MINHMOI[1], g.RAINLIM[1], g.RAINACT[1] = 90, 10, 1, 1
	var hp HFilePath
	var cfg Config
	var out CropOutputVars
	PhytoOut(g, l, &hp, zeit, &cfg, &out)
	vCover("C16.latest.reach")
	if zeit == g.ERNTE2[1]-1 {
		vCover("C16.latest.cover_day_before_latest_harvest_date")
		vAssert("C16.latest.harvest_fixed_for_the_latest_date_also_before_emergence", g.ERNTE[1] == zeit+1)
	}
	if g.ERNTE[1] != 0 {
		vAssert("C16.latest.harvest_not_later_than_latest_date", g.ERNTE[1] <= g.ERNTE2[1])
	}
	if zeit > g.ERNTE2[1] {
		vAssert("C16.latest.no_harvest_date_invented_after_the_latest_date", g.ERNTE[1] == 0)
	}
	vObserveInt("ernte", g.ERNTE[1])
}
