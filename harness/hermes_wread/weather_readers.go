package hermes

// Weather file readers (C04 reader part, C13 weather layouts).
//
// The three real readers (WetterK: one file per year; ReadWeatherCSV: multi-year CSV with ISO
// dates; ReadWeatherCZ: multi-year day-of-year layout) are executed on files whose lines are
// built here: dates are concrete (scenario), every number is a numeric token, i.e. an
// arbitrary real. Session.Open is replaced by zzWOpen (a scanner over the lines; natively a
// scanner over the same text), bufio.Scanner and time.Parse are the executor's models.
// transformWeatherData / replaceMissingValues run as they are (values are assumed not to be the
// 'no value' sentinel; the normalisations are decided on their own in zzC04Transform / zzC04Missing).

import (
	"bufio"
	"fmt"
	"os"
)

func init() {
	vRegister("zzC13WeatherGap", func(a []int) { zzC13WeatherGap(a[0]) })
	vRegister("zzC04ReadMulti", func(a []int) { zzC04ReadMulti(a[0], a[1], a[2]) })
	vRegister("zzC04ReadYearFile", func(a []int) { zzC04ReadYearFile(a[0], a[1]) })
	vRegister("zzC04ReadYearFilesInTurn", func(a []int) { zzC04ReadYearFilesInTurn(a[0], a[1]) })
	vRegister("zzC13WeatherLayouts", func(a []int) { zzC13WeatherLayouts(a[0], a[1]) })
}

type zzWDate struct{ y, m, d, doy int }

// scenarios: lists of calendar days (concrete), the year the run starts in, and whether the
// file is complete (no day missing between its first and last line, from the start year on)
func zzWScenario(sc int) (dates []zzWDate, startYear int, complete bool) {
	switch sc {
	case 0: // year change into a leap year
		return []zzWDate{{2003, 12, 30, 364}, {2003, 12, 31, 365}, {2004, 1, 1, 1}, {2004, 1, 2, 2}}, 2003, true
	case 1: // end of a leap year
		return []zzWDate{{2004, 12, 30, 365}, {2004, 12, 31, 366}, {2005, 1, 1, 1}}, 2004, true
	case 2: // file starts before the start year
		return []zzWDate{{2002, 12, 30, 364}, {2002, 12, 31, 365}, {2003, 1, 1, 1}, {2003, 1, 2, 2}}, 2003, true
	case 3: // three years
		return []zzWDate{{2003, 12, 31, 365}, {2004, 1, 1, 1}, {2004, 1, 2, 2}}, 2003, true
	case 4: // six consecutive days across the change from an ordinary year into a leap year
		return []zzWDate{{2003, 12, 29, 363}, {2003, 12, 30, 364}, {2003, 12, 31, 365}, {2004, 1, 1, 1}, {2004, 1, 2, 2}, {2004, 1, 3, 3}}, 2003, true
	case 5: // four years, one or two days each side of every change
		return []zzWDate{{2003, 12, 31, 365}, {2004, 1, 1, 1}, {2004, 12, 31, 366}, {2005, 1, 1, 1}, {2005, 12, 31, 365}, {2006, 1, 1, 1}}, 2003, false
	case 10: // a day missing inside a year
		return []zzWDate{{2003, 12, 28, 362}, {2003, 12, 29, 363}, {2003, 12, 31, 365}}, 2003, false
	case 11: // the first day of the next year missing
		return []zzWDate{{2003, 12, 30, 364}, {2003, 12, 31, 365}, {2004, 1, 2, 2}}, 2003, false
	case 12: // the last day of a year missing
		return []zzWDate{{2003, 12, 29, 363}, {2003, 12, 30, 364}, {2004, 1, 1, 1}, {2004, 1, 2, 2}}, 2003, false
	case 13: // a day given twice
		return []zzWDate{{2003, 12, 30, 364}, {2003, 12, 30, 364}, {2003, 12, 31, 365}}, 2003, false
	case 14: // a whole year missing
		return []zzWDate{{2003, 12, 30, 364}, {2003, 12, 31, 365}, {2005, 1, 1, 1}, {2005, 1, 2, 2}}, 2003, false
	}
	panic("unknown scenario")
}

func zz2(n int) string { return fmt.Sprintf("%02d", n) }
func zz3(n int) string { return fmt.Sprintf("%03d", n) }

var zzWFiles = map[string][]string{}
var zzWDir string

// zzWPut registers a file: under the executor its lines are handed to zzWOpen (which stands for
// Session.Open); natively the text is written to a temporary directory and the real Open reads it.
func zzWPut(name string, lines []string) string {
	if vSymbolic() {
		zzWFiles[name] = lines
		return name
	}
	if zzWDir == "" {
		d, err := os.MkdirTemp("", "zzwread")
		if err != nil {
			panic(err)
		}
		zzWDir = d
	}
	text := ""
	for _, l := range lines {
		text += l + "\n"
	}
	p := zzWDir + "/" + name
	if err := os.WriteFile(p, []byte(text), 0o644); err != nil {
		panic(err)
	}
	return p
}

func zzWCleanup() {
	if zzWDir != "" {
		os.RemoveAll(zzWDir)
		zzWDir = ""
	}
}

func zzWOpen(s *HermesSession, fd *FileDescriptior) (*os.File, *bufio.Scanner, error) {
	lines, ok := zzWFiles[fd.FilePath]
	if !ok {
		return nil, nil, fmt.Errorf("no such file %s", fd.FilePath)
	}
	return new(os.File), vScanner(lines, len(lines)), nil
}

// normalisations (decided on their own in zzC04Transform): mm -> cm, PAR = half of global radiation, wind floor
func zzWReg(x float64) float64 { return x / 10 }
func zzWRad(x float64) float64 { return x / 2 }
func zzWWind(x float64) float64 {
	if x < 0.5 {
		return 0.5
	}
	return x
}

// numeric tokens of record i
func zzTok(name string, i int) string {
	if zzTokGap != "" && zzTokGap == fmt.Sprintf("%s/%d", name, i) {
		return "-99.9" // the "no value" sentinel stands in the file
	}
	return vFloatText(name, i)
}

// zzTokGap names one (variable, record) whose value is missing in the files of the current harness
var zzTokGap string

const (
	zzCSV = 1
	zzCZ  = 2
)

// zzWMultiFile writes the records in the multi-year CSV (format 1) or day-of-year (format 2) layout.
// cols selects the column order (0: as documented, 1: reversed data columns).
func zzWMultiFile(format, cols int, dates []zzWDate, station bool) []string {
	names := []string{"tmin", "tavg", "tmax", "precip", "globrad", "wind", "relhumid", "sunhours", "verd"}
	vars := []string{"tmin", "tavg", "tmax", "prec", "rad", "wind", "rh", "sunh", "verd"}
	if format == zzCZ {
		names = []string{"RAD", "TMAX", "TMIN", "RH", "WIND", "PREC", "SUNH", "VERD"}
		vars = []string{"rad", "tmax", "tmin", "rh", "wind", "prec", "sunh", "verd"}
	}
	if cols == 1 {
		for a, b := 0, len(names)-1; a < b; a, b = a+1, b-1 {
			names[a], names[b] = names[b], names[a]
			vars[a], vars[b] = vars[b], vars[a]
		}
	}
	sep := ","
	head := "iso-date"
	if format == zzCZ {
		sep = " "
		head = "@YYYYJJJ"
	}
	for _, n := range names {
		head += sep + n
	}
	lines := []string{head}
	if station {
		lines = append(lines, "units", vFloatText("alt")+sep+vFloatText("windhi")+sep+"---")
	}
	for i, dt := range dates {
		l := fmt.Sprintf("%d", dt.y) + "-" + zz2(dt.m) + "-" + zz2(dt.d)
		if format == zzCZ {
			l = fmt.Sprintf("%d", dt.y) + zz3(dt.doy)
		}
		for _, v := range vars {
			l += sep + zzTok(v, i)
		}
		lines = append(lines, l)
	}
	return lines
}

// zzWYearFile: the one-file-per-year layout for the records of one year (day numbers as given)
func zzWYearFile(recs []int, doyText func(k int) string) []string {
	lines := []string{"Tp_av;Tpmin;Tpmax;ET0;rH;vappd14;wind;sundu;radia pr;prec;jday", "C_deg;C_deg;C_deg;mm;%;mm_Hg;m/sec;hours;MJ/m^2;mm ;",
		vFloatText("alt") + ";" + vFloatText("windhi") + ";-----;-----;-----;-----;-----;-----;------;-- -;-"}
	for k, i := range recs {
		lines = append(lines, zzTok("tavg", i)+";"+zzTok("tmin", i)+";"+zzTok("tmax", i)+";"+zzTok("et0", i)+";"+zzTok("rh", i)+";"+zzTok("verd", i)+";"+
			zzTok("wind", i)+";"+zzTok("sunh", i)+";"+zzTok("rad", i)+";"+zzTok("prec", i)+";"+doyText(k))
	}
	return lines
}

func zzWSetup(numHeader int) (*GlobalVarsMain, *HFilePath, *Config) {
	g := new(GlobalVarsMain)
	g.Session = NewHermesSession()
	g.LOGID = "zz"
	g.PRECO = false
	hp := new(HFilePath)
	cfg := NewDefaultConfig()
	cfg.WeatherNumHeader = numHeader
	cfg.WeatherNoneValue = -99.9
	return g, hp, &cfg
}

// value domain: no value is the "no value" sentinel (-99.9), sunshine hours in [0,24] (the readers reject others)
func zzWSensible(n int) {
	for i := 0; i < n; i++ {
		sunh := vFloat("sunh", i)
		vAssume(sunh >= 0 && sunh <= 24)
		for _, v := range []string{"tmin", "tavg", "tmax", "prec", "rad", "wind", "rh", "verd"} {
			x := vFloat(v, i)
			vAssume(x >= -80 && x <= 5000)
		}
	}
}

// ---- C04: a multi-year file is read record by record into the year and day of its date;
// a file with a missing or repeated day is rejected
func zzC04ReadMulti(format, sc, cols int) {
	dates, startYear, complete := zzWScenario(sc)
	g, hp, cfg := zzWSetup(1)
	zzWSensible(len(dates))
	defer zzWCleanup()
	path := zzWPut("W.csv", zzWMultiFile(format, cols, dates, false))
	years := dates[len(dates)-1].y - startYear + 1
	s := NewWeatherDataShared(years, 400)
	var err error
	if format == zzCSV {
		err = ReadWeatherCSV(path, startYear, g, &s, hp, cfg)
	} else {
		err = ReadWeatherCZ(path, startYear, g, &s, hp, cfg)
	}
	if !complete {
		vAssert("C04.reader.missing_or_repeated_day_is_an_error", err != nil)
		return
	}
	vAssert("C04.reader.complete_file_is_accepted", err == nil)
	lastDoy := map[int]int{}
	for i, dt := range dates {
		if dt.y < startYear {
			continue
		}
		yi, di := dt.y-startYear, dt.doy-1
		lastDoy[yi] = dt.doy
		tavg := vFloat("tavg", i)
		if format == zzCZ {
			tavg = (vFloat("tmax", i) + vFloat("tmin", i)) / 2
		}
		same := s.TMP[yi][di] == tavg && s.TMI[yi][di] == vFloat("tmin", i) && s.TMA[yi][di] == vFloat("tmax", i) &&
			s.RELF[yi][di] == vFloat("rh", i) && s.RADI[yi][di] == zzWRad(vFloat("rad", i)) && s.WIN[yi][di] == zzWWind(vFloat("wind", i)) &&
			s.REG[yi][di] == zzWReg(vFloat("prec", i)) && s.SUND[yi][di] == vFloat("sunh", i) && s.VERD[yi][di] == vFloat("verd", i)
		vAssert("C04.reader.record_stored_under_its_own_date", same)
		vAssert("C04.reader.year_recorded", s.JAR[yi] == dt.y)
		vObserve("tmp", s.TMP[yi][di])
		vObserve("reg", s.REG[yi][di])
	}
	for yi, d := range lastDoy {
		vAssert("C04.reader.year_length_is_last_day_read", s.MaxYearDays[yi] == d)
	}
	vCover("C04.reader.cover_accepted")
}

// ---- C04: the one-file-per-year reader: day numbers are symbolic; the file is accepted iff they are 1, 2, 3, ...
func zzC04ReadYearFile(n, year int) {
	g, hp, cfg := zzWSetup(3)
	recs := make([]int, n)
	for k := range recs {
		recs[k] = k
	}
	defer zzWCleanup()
	zzWSensible(n)
	for k := 0; k < n; k++ {
		vAssume(vFloat("et0", k) >= -80 && vFloat("et0", k) <= 100)
	}
	path := zzWPut("Y.txt", zzWYearFile(recs, func(k int) string { return vIntText("doy", k) }))
	consecutive := true
	for k := 0; k < n; k++ {
		d := vInt("doy", k)
		vAssume(d >= -5 && d <= 400)
		if d != k+1 {
			consecutive = false
		}
	}
	s := NewWeatherDataShared(1, 400)
	err := WetterK(path, year, g, &s, hp, cfg)
	if !consecutive {
		vAssert("C04.yearfile.missing_or_repeated_day_is_an_error", err != nil)
		return
	}
	vCover("C04.yearfile.cover_accepted")
	vAssert("C04.yearfile.complete_file_is_accepted", err == nil)
	for k := 0; k < n; k++ {
		same := s.TMP[0][k] == vFloat("tavg", k) && s.TMI[0][k] == vFloat("tmin", k) && s.TMA[0][k] == vFloat("tmax", k) &&
			s.ETNULL[0][k] == vFloat("et0", k) && s.RELF[0][k] == vFloat("rh", k) && s.VERD[0][k] == vFloat("verd", k) &&
			s.WIN[0][k] == zzWWind(vFloat("wind", k)) && s.SUND[0][k] == vFloat("sunh", k) && s.RADI[0][k] == zzWRad(vFloat("rad", k)) && s.REG[0][k] == zzWReg(vFloat("prec", k))
		vAssert("C04.yearfile.record_stored_under_its_day", same)
		vObserve("tmp", s.TMP[0][k])
	}
	vAssert("C04.yearfile.year_and_length", s.JAR[0] == year && s.MaxYearDays[0] == n)
	g.ALTI, g.WINDHI = 11, 22 // configuration values: the station line of the file overrides them
	errL := LoadYear(g, &s, year)
	vAssert("C04.yearfile.station_line_reaches_run_state", errL == nil && g.ALTI == vFloat("alt") && g.WINDHI == vFloat("windhi"))
}

// ---- C13: the same weather in the three layouts gives the same year in the run state
type zzWYearState struct {
	temp, tmin, tmax, rh, rad, wind, regen, sund, verd [6]float64
	jtag                                              int
	alti, windhi                                      float64
	err                                               bool
}

func zzWLoad(g *GlobalVarsMain, s *WeatherDataShared, year, n int) zzWYearState {
	var st zzWYearState
	st.err = LoadYear(g, s, year) != nil
	for k := 0; k < n && k < 6; k++ {
		st.temp[k], st.tmin[k], st.tmax[k], st.rh[k], st.rad[k] = g.TEMP[k], g.TMIN[k], g.TMAX[k], g.RH[k], g.RAD[k]
		st.wind[k], st.regen[k], st.sund[k], st.verd[k] = g.WIND[k], g.REGEN[k], g.SUND[k], g.VERD[k]
	}
	st.jtag, st.alti, st.windhi = g.JTAG, g.ALTI, g.WINDHI
	return st
}

// n days of the year 2004 (1 January ...), preceded in the multi-year files by 31 December 2003 when pre == 1
func zzC13WeatherLayouts(n, pre int) {
	var dates []zzWDate
	if pre == 1 {
		dates = append(dates, zzWDate{2003, 12, 31, 365})
	}
	var recs []int
	for k := 0; k < n; k++ {
		recs = append(recs, len(dates))
		dates = append(dates, zzWDate{2004, 1, k + 1, k + 1})
	}
	defer zzWCleanup()
	zzWSensible(len(dates))
	for i := range dates {
		// the day-of-year layout derives the mean temperature: the layouts agree where the file's mean is the min/max mean
		vAssume(vFloat("tavg", i) == (vFloat("tmax", i)+vFloat("tmin", i))/2)
		vAssume(vFloat("tmin", i) <= vFloat("tmax", i))
		// no evaporation column in the multi-year layouts: the yearly file carries "no value" there
		vAssume(vFloat("et0", i) >= 0 && vFloat("et0", i) <= 100)
		vAssume(vFloat("verd", i) > 0) // a saturation deficit is given
	}
	alt, windhi := vFloat("alt"), vFloat("windhi")
	startYear := dates[0].y
	years := 2004 - startYear + 1
	var res [3]zzWYearState
	for f := 0; f < 3; f++ {
		numHeader := 3
		if f == zzCZ {
			numHeader = 1 // this layout has no station line: heights come from the configuration
		}
		g, hp, cfg := zzWSetup(numHeader)
		g.ALTI, g.WINDHI = alt, windhi // configuration agrees with the station line
		var err error
		var s WeatherDataShared
		switch f {
		case 0:
			path := zzWPut("Y.txt", zzWYearFile(recs, func(k int) string { return fmt.Sprintf("%d", k+1) }))
			s = NewWeatherDataShared(1, 400)
			err = WetterK(path, 2004, g, &s, hp, cfg)
		case zzCSV:
			path := zzWPut("W1.csv", zzWMultiFile(zzCSV, 0, dates, true))
			s = NewWeatherDataShared(years, 400)
			err = ReadWeatherCSV(path, startYear, g, &s, hp, cfg)
		case zzCZ:
			path := zzWPut("W2.csv", zzWMultiFile(zzCZ, 0, dates, false))
			s = NewWeatherDataShared(years, 400)
			err = ReadWeatherCZ(path, startYear, g, &s, hp, cfg)
		}
		vAssert("C13.weather.file_accepted", err == nil)
		res[f] = zzWLoad(g, &s, 2004, n)
		vAssert("C13.weather.year_found", !res[f].err)
	}
	for f := 1; f < 3; f++ {
		a, b := res[0], res[f]
		same := a.jtag == b.jtag
		for k := 0; k < n && k < 6; k++ {
			same = same && a.temp[k] == b.temp[k] && a.tmin[k] == b.tmin[k] && a.tmax[k] == b.tmax[k] && a.rh[k] == b.rh[k] && a.rad[k] == b.rad[k] &&
				a.wind[k] == b.wind[k] && a.regen[k] == b.regen[k] && a.sund[k] == b.sund[k] && a.verd[k] == b.verd[k]
		}
		vAssert("C13.weather.same_daily_values_in_every_layout", same)
		vAssert("C13.weather.same_station_and_wind_height", a.alti == b.alti && a.windhi == b.windhi && a.alti == alt && a.windhi == windhi)
	}
	vObserve("temp0", res[1].temp[0])
	vObserve("alti_csv", res[1].alti)
	vObserve("alti_cz", res[2].alti)
	vCover("C13.weather.cover")
}


// ---- C04: the day loop reads one year file after the other into the same buffer: after the second
// file the buffer describes the second year only (length, year, values), whatever the first one held
func zzC04ReadYearFilesInTurn(n1, n2 int) {
	g, hp, cfg := zzWSetup(3)
	defer zzWCleanup()
	zzWSensible(n1 + n2)
	for k := 0; k < n1+n2; k++ {
		vAssume(vFloat("et0", k) >= -80 && vFloat("et0", k) <= 100)
	}
	var r1, r2 []int
	for k := 0; k < n1; k++ {
		r1 = append(r1, k)
	}
	for k := 0; k < n2; k++ {
		r2 = append(r2, n1+k)
	}
	p1 := zzWPut("Y1.txt", zzWYearFile(r1, func(k int) string { return fmt.Sprintf("%d", k+1) }))
	p2 := zzWPut("Y2.txt", zzWYearFile(r2, func(k int) string { return fmt.Sprintf("%d", k+1) }))
	s := NewWeatherDataShared(1, 400)
	e1 := WetterK(p1, 2004, g, &s, hp, cfg)
	e1b := LoadYear(g, &s, 2004)
	e2 := WetterK(p2, 2005, g, &s, hp, cfg)
	e2b := LoadYear(g, &s, 2005)
	vAssert("C04.yearfiles.accepted", e1 == nil && e1b == nil && e2 == nil && e2b == nil)
	vAssert("C04.yearfiles.second_year_length_and_year", s.MaxYearDays[0] == n2 && s.JAR[0] == 2005 && g.JTAG == n2)
	for k := 0; k < n2; k++ {
		i := n1 + k
		vAssert("C04.yearfiles.second_year_values", g.TEMP[k] == vFloat("tavg", i) && g.REGEN[k] == zzWReg(vFloat("prec", i)) && g.RAD[k] == zzWRad(vFloat("rad", i)) && g.WIND[k] == zzWWind(vFloat("wind", i)))
	}
	vObserveInt("jtag", g.JTAG)
}

// ---- C13 / C04: a missing optional value (the "no value" sentinel in the file) on the middle one of three days is
// filled by the mean of the adjacent days, and identically in every layout that carries the variable.
// which: 0 mean temperature (yearly file and multi-year CSV), 1 saturation deficit, 2 sunshine duration (all three)
func zzC13WeatherGap(which int) {
	dates := []zzWDate{{2004, 1, 1, 1}, {2004, 1, 2, 2}, {2004, 1, 3, 3}}
	recs := []int{0, 1, 2}
	name := []string{"tavg", "verd", "sunh"}[which]
	defer zzWCleanup()
	defer func() { zzTokGap = "" }()
	zzWSensible(3)
	for i := range dates {
		if which != 0 {
			vAssume(vFloat("tavg", i) == (vFloat("tmax", i)+vFloat("tmin", i))/2)
		}
		vAssume(vFloat("tmin", i) <= vFloat("tmax", i))
		vAssume(vFloat("et0", i) >= 0 && vFloat("et0", i) <= 100)
		vAssume(vFloat("verd", i) > 0)
	}
	zzTokGap = fmt.Sprintf("%s/%d", name, 1)
	alt, windhi := vFloat("alt"), vFloat("windhi")
	layouts := 3
	if which == 0 {
		layouts = 2 // the day-of-year layout has no mean temperature column
	}
	var res [3]zzWYearState
	for f := 0; f < layouts; f++ {
		numHeader := 3
		if f == zzCZ {
			numHeader = 1
		}
		g, hp, cfg := zzWSetup(numHeader)
		g.ALTI, g.WINDHI = alt, windhi
		var err error
		var s WeatherDataShared
		switch f {
		case 0:
			path := zzWPut("Y.txt", zzWYearFile(recs, func(k int) string { return fmt.Sprintf("%d", k+1) }))
			s = NewWeatherDataShared(1, 400)
			err = WetterK(path, 2004, g, &s, hp, cfg)
		case zzCSV:
			path := zzWPut("W1.csv", zzWMultiFile(zzCSV, 0, dates, true))
			s = NewWeatherDataShared(1, 400)
			err = ReadWeatherCSV(path, 2004, g, &s, hp, cfg)
		case zzCZ:
			path := zzWPut("W2.csv", zzWMultiFile(zzCZ, 0, dates, false))
			s = NewWeatherDataShared(1, 400)
			err = ReadWeatherCZ(path, 2004, g, &s, hp, cfg)
		}
		vAssert("C13.gap.file_accepted", err == nil)
		res[f] = zzWLoad(g, &s, 2004, 3)
		vAssert("C13.gap.year_found", !res[f].err)
		var got, want float64
		switch which {
		case 0:
			got, want = res[f].temp[1], (vFloat("tavg", 0)+vFloat("tavg", 2))/2
		case 1:
			got, want = res[f].verd[1], (vFloat("verd", 0)+vFloat("verd", 2))/2
		default:
			got, want = res[f].sund[1], (vFloat("sunh", 0)+vFloat("sunh", 2))/2
		}
		vAssert("C04.gap.missing_value_is_mean_of_adjacent_days", got == want)
	}
	for f := 1; f < layouts; f++ {
		a, b := res[0], res[f]
		same := a.jtag == b.jtag
		for k := 0; k < 3; k++ {
			same = same && a.temp[k] == b.temp[k] && a.tmin[k] == b.tmin[k] && a.tmax[k] == b.tmax[k] && a.rh[k] == b.rh[k] && a.rad[k] == b.rad[k] &&
				a.wind[k] == b.wind[k] && a.regen[k] == b.regen[k] && a.sund[k] == b.sund[k] && a.verd[k] == b.verd[k]
		}
		vAssert("C13.gap.same_daily_values_in_every_layout", same)
	}
	vObserve("filled", res[1].temp[1])
	vCover("C13.gap.cover")
}
