package hermes

// Verification intrinsics. The symbolic executor intercepts calls to these
// functions; the bodies below are used only for native replay of a solver
// model (values are read from the JSON file named by VERIF_REPLAY).

import (
	"bufio"
	"encoding/json"
	"fmt"
	"io"
	"os"
	"reflect"
	"strconv"
	"strings"
)

type vReplayFile struct {
	Harness string            `json:"harness"`
	Args    []int             `json:"args"`
	Values  map[string]string `json:"values"`
	Known   []string          `json:"known"`
}

var vReplay *vReplayFile
var vFailures []string
var vAssumeFailed []string
var vCovers []string
var vHarnesses = map[string]func(a []int){}

func vRegister(name string, f func(a []int)) { vHarnesses[name] = f }

func vLoad() {
	if vReplay != nil {
		return
	}
	vReplay = &vReplayFile{Values: map[string]string{}}
	p := os.Getenv("VERIF_REPLAY")
	if p == "" {
		return
	}
	b, err := os.ReadFile(p)
	if err != nil {
		panic(err)
	}
	if err := json.Unmarshal(b, vReplay); err != nil {
		panic(err)
	}
}

func vName(name string, idx []int) string {
	for _, i := range idx {
		name += "_" + strconv.Itoa(i)
	}
	return name
}

func vInt(name string, idx ...int) int {
	vLoad()
	s, ok := vReplay.Values[vName(name, idx)]
	if !ok {
		return 0
	}
	v, err := strconv.ParseInt(s, 10, 64)
	if err != nil {
		panic(fmt.Sprintf("replay value %s=%q", vName(name, idx), s))
	}
	return int(v)
}

func vByte(name string, idx ...int) byte { return byte(vInt(name, idx...)) }

func vFloat(name string, idx ...int) float64 {
	vLoad()
	s, ok := vReplay.Values[vName(name, idx)]
	if !ok {
		return 0
	}
	v, err := strconv.ParseFloat(s, 64)
	if err != nil {
		panic(fmt.Sprintf("replay value %s=%q", vName(name, idx), s))
	}
	return v
}

func vBool(name string, idx ...int) bool {
	vLoad()
	return vReplay.Values[vName(name, idx)] == "true"
}

// vAssume: in replay a failed assumption is recorded (the model was rounded).
func vAssume(c bool) {
	if !c {
		vAssumeFailed = append(vAssumeFailed, "assume")
		fmt.Println("VERIF-ASSUME-FAILED")
	}
}

// failures are printed at once (in execution order) so that a later log.Fatal of the
// code under test cannot hide them and so that the order relative to assumptions is known
func vAssert(id string, c bool) {
	if !c {
		vFailures = append(vFailures, id)
		fmt.Println("VERIF-FAIL", id)
	}
}

var vObs []string

func vObserve(name string, x float64) {
	vObs = append(vObs, name+" "+strconv.FormatFloat(x, 'g', -1, 64))
	if x != x || x > 1.7e308 || x < -1.7e308 {
		// an observed value is NaN or infinite: reported like a failed assertion (used to confirm natively that a
		// division by zero the solver found reachable shows in the state)
		vFailures = append(vFailures, "nonfinite:"+name)
		fmt.Println("VERIF-FAIL", "nonfinite:"+name)
	}
}

func vObserveStr(name string, x string) {
	vObs = append(vObs, name+" "+strconv.Quote(x))
}

func vObserveInt(name string, x int) {
	vObs = append(vObs, name+" "+strconv.Itoa(x))
}

func vCover(id string) { vCovers = append(vCovers, id) }

func vKnown(id string) bool {
	vLoad()
	for _, k := range vReplay.Known {
		if k == id {
			return true
		}
	}
	return false
}

// vSymbolic reports whether the code runs under the symbolic executor.
func vSymbolic() bool { return false }

// ---- small helpers shared by harnesses (ordinary Go, executed symbolically)

func vAbs(x float64) float64 {
	if x < 0 {
		return -x
	}
	return x
}

// vNear: |a-b| <= eps
func vNear(a, b, eps float64) bool {
	d := a - b
	return d <= eps && -d <= eps
}

// vLemmaPoint: at every symbolic application site of the named math function
// the engine asserts the natively evaluated value at x (with monotonicity).
func vLemmaPoint(fn string, x float64) {}

// ---- output capture (native: redirect os.Stdout to a temp file)

var vCapFile *os.File
var vCapOld *os.File

func vCaptureStart() {
	f, err := os.CreateTemp("", "verif-capture-")
	if err != nil {
		panic(err)
	}
	vCapFile = f
	vCapOld = os.Stdout
	os.Stdout = f
}

func vCaptureEnd() string {
	os.Stdout = vCapOld
	vCapFile.Seek(0, 0)
	b, _ := io.ReadAll(vCapFile)
	vCapFile.Close()
	os.Remove(vCapFile.Name())
	return string(b)
}

// vTokens splits a string into its maximal decimal digit runs (as ints) and the
// texts around them: len(texts) == len(ints)+1.
func vTokens(s string) (ints []int, texts []string) {
	cur := ""
	i := 0
	for i < len(s) {
		c := s[i]
		if c < '0' || c > '9' {
			cur += string(c)
			i++
			continue
		}
		j := i
		for j < len(s) && s[j] >= '0' && s[j] <= '9' {
			j++
		}
		v, _ := strconv.Atoi(s[i:j])
		ints = append(ints, v)
		texts = append(texts, cur)
		cur = ""
		i = j
	}
	texts = append(texts, cur)
	return
}

// vTag names an object so that logged calls of stubbed methods on it can be counted;
// vCalls returns how often the stubbed function was called. Natively the stubbed functions
// run for real, so native counting is done by the harness' own writer objects instead.
var vCallLog = map[string]int{}

func vTag(p interface{}, name string) {}
func vCalls(name string) int          { return vCallLog[name] }

// vGoCount: how many goroutines were launched with the given string among their arguments
// (symbolic executor only; natively launching the tasks is not possible in a replay).
func vGoCount(arg string) int { return 0 }

// vFloatText / vIntText: the text of a harness input as it would be written in
// an input file or on a command line. Under the executor the result is a token
// that strconv.ParseFloat/ParseInt/Atoi map back to the same input.
func vFloatText(name string, idx ...int) string {
	return strconv.FormatFloat(vFloat(name, idx...), 'g', -1, 64)
}

func vIntText(name string, idx ...int) string { return strconv.Itoa(vInt(name, idx...)) }

// vFieldName: name of the i-th field of the struct p points to.
func vFieldName(p interface{}, i int) string {
	return reflect.TypeOf(p).Elem().Field(i).Name
}

// vScanner: a scanner over the first n of the given lines (a text file with one line feed per line).
func vScanner(lines []string, n int) *bufio.Scanner {
	return bufio.NewScanner(strings.NewReader(strings.Join(lines[:n], "\n") + "\n"))
}

// select-model observers (meaningful under the executor only; dispatcher harnesses are replayed in the interpreter)
func vRecvCount(kind string) int                 { return 0 }
func vRecvFlagCount(field string, want bool) int { return 0 }
func vLastOut() string                           { return "" }

// further select-model observers (executor only): number of select statements executed, whether case c of the
// k-th one was taken, the value it received; vOutCount: how many lines written to standard output equal the text
func vRecvN() int                     { return 0 }
func vRecvTaken(k, c int) bool        { return false }
func vRecvValue(k, c int) interface{} { return nil }
func vOutCount(text string) int       { return 0 }
