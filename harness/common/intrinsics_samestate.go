package hermes

import (
	"fmt"
	"math"
	"os"
	"reflect"
)

// vSameState(a, b, skip...): a and b point to values of the same type; true iff everything reachable from them is
// equal (all fields, also unexported ones and ones added later), except the top-level fields named in skip.
// Under the executor this is a structural comparison of the two value trees; natively a reflect walk.
func vSameState(a, b interface{}, skip ...string) bool {
	va, vb := reflect.ValueOf(a), reflect.ValueOf(b)
	if va.Kind() != reflect.Ptr || vb.Kind() != reflect.Ptr || va.Type() != vb.Type() {
		return false
	}
	sk := map[string]bool{}
	for _, s := range skip {
		sk[s] = true
	}
	seen := map[[2]uintptr]bool{}
	ea, eb := va.Elem(), vb.Elem()
	if ea.Kind() == reflect.Struct {
		for i := 0; i < ea.NumField(); i++ {
			if sk[ea.Type().Field(i).Name] {
				continue
			}
			if !zzDeepSame(ea.Field(i), eb.Field(i), ea.Type().Field(i).Name, seen, 0) {
				return false
			}
		}
		return true
	}
	return zzDeepSame(ea, eb, "", seen, 0)
}

func zzDeepSame(a, b reflect.Value, path string, seen map[[2]uintptr]bool, depth int) bool {
	differ := func() bool {
		if os.Getenv("VERIF_SAMESTATE_DEBUG") != "" {
			fmt.Fprintln(os.Stderr, "vSameState: difference at", path)
		}
		return false
	}
	if a.Kind() != b.Kind() {
		return differ()
	}
	switch a.Kind() {
	case reflect.Bool:
		if a.Bool() != b.Bool() {
			return differ()
		}
	case reflect.Int, reflect.Int8, reflect.Int16, reflect.Int32, reflect.Int64:
		if a.Int() != b.Int() {
			return differ()
		}
	case reflect.Uint, reflect.Uint8, reflect.Uint16, reflect.Uint32, reflect.Uint64, reflect.Uintptr:
		if a.Uint() != b.Uint() {
			return differ()
		}
	case reflect.Float32, reflect.Float64:
		x, y := a.Float(), b.Float()
		if x != y && !(math.IsNaN(x) && math.IsNaN(y)) {
			return differ()
		}
	case reflect.String:
		if a.String() != b.String() {
			return differ()
		}
	case reflect.Struct:
		for i := 0; i < a.NumField(); i++ {
			if !zzDeepSame(a.Field(i), b.Field(i), path+"."+a.Type().Field(i).Name, seen, depth) {
				return false
			}
		}
	case reflect.Array:
		for i := 0; i < a.Len(); i++ {
			if !zzDeepSame(a.Index(i), b.Index(i), fmt.Sprintf("%s[%d]", path, i), seen, depth) {
				return false
			}
		}
	case reflect.Slice:
		if a.Len() != b.Len() {
			return differ()
		}
		for i := 0; i < a.Len(); i++ {
			if !zzDeepSame(a.Index(i), b.Index(i), fmt.Sprintf("%s[%d]", path, i), seen, depth) {
				return false
			}
		}
	case reflect.Ptr:
		if a.IsNil() || b.IsNil() {
			if a.IsNil() != b.IsNil() {
				return differ()
			}
			return true
		}
		if a.Pointer() == b.Pointer() {
			return true
		}
		key := [2]uintptr{a.Pointer(), b.Pointer()}
		if seen[key] || depth > 6 {
			return true
		}
		seen[key] = true
		return zzDeepSame(a.Elem(), b.Elem(), path+"*", seen, depth+1)
	case reflect.Map:
		if a.Len() != b.Len() {
			return differ()
		}
		for _, k := range a.MapKeys() {
			bv := b.MapIndex(k)
			if !bv.IsValid() || !zzDeepSame(a.MapIndex(k), bv, path+"{}", seen, depth) {
				return differ()
			}
		}
	case reflect.Func:
		if a.IsNil() != b.IsNil() {
			return differ()
		}
	case reflect.Interface:
		if a.IsNil() || b.IsNil() {
			if a.IsNil() != b.IsNil() {
				return differ()
			}
			return true
		}
		return zzDeepSame(a.Elem(), b.Elem(), path+"(iface)", seen, depth)
	}
	return true
}
