package hermes

// C07: the measurement-date block of the day loop of Run (region zzR_MeasurementDay, lifted verbatim: measured
// mineral N and water contents replace the simulated ones, the cumulative counters restart): whatever it resets,
// "dissolved fertiliser never exceeds fertiliser applied" keeps holding for both pairs of counters (mineral
// fertiliser DSUMM/UMS and ammonium NH4Sum/NH4UMS) and no counter becomes negative; on any other day the block
// changes nothing.

func init() {
	vRegister("zzC07MeasureDay", func(a []int) { zzC07MeasureDay(a[0]) })
}

func zzC07MeasureDay(n int) {
	g := NewGlobalVarsMain()
	g.N = n
	g.MZ = 1
	g.MESS[0] = vInt("mess")
	ZEIT := vInt("zeit")
	vAssume(ZEIT >= 1000 && ZEIT <= 80000 && g.MESS[0] >= 0 && g.MESS[0] <= 80000)
	g.DSUMM, g.UMS, g.NH4Sum, g.NH4UMS = vFloat("dsumm"), vFloat("ums"), vFloat("nh4sum"), vFloat("nh4ums")
	vAssume(0 <= g.UMS && g.UMS <= g.DSUMM && 0 <= g.NH4UMS && g.NH4UMS <= g.NH4Sum)
	g.OUTSUM, g.SICKER, g.CAPSUM = vFloat("outsum"), vFloat("sicker"), vFloat("capsum")
	for z := 0; z <= n; z++ {
		g.C1[z] = vFloat("c1", z)
		g.CN[1][z] = vFloat("measured_n", z)
		vAssume(g.C1[z] >= 0 && g.CN[1][z] >= 0)
		g.WG[1][z], g.WG[2][z] = vFloat("wg1", z), vFloat("measured_w", z)
	}
	c1old := g.C1
	dsumm0, ums0, nh4s0, nh4u0 := g.DSUMM, g.UMS, g.NH4Sum, g.NH4UMS
	_, ctl := zzR_MeasurementDay(&g, ZEIT)
	vCover("C07.measureday.reach")
	vAssert("C07.measureday.falls_through", ctl == 0)
	vAssert("C07.measureday.dissolved_never_exceeds_applied_mineral", 0 <= g.UMS && g.UMS <= g.DSUMM)
	vAssert("C07.measureday.dissolved_never_exceeds_applied_ammonium", 0 <= g.NH4UMS && g.NH4UMS <= g.NH4Sum)
	if ZEIT == g.MESS[0] {
		vCover("C07.measureday.cover_measurement_day")
		for z := 0; z <= n; z++ {
			vAssert("C07.measureday.mineral_n_is_the_measured_value", g.C1[z] == g.CN[1][z] && g.C1[z] >= 0)
		}
		vAssert("C07.measureday.next_measurement_is_awaited", g.MZ == 2)
	} else {
		same := g.DSUMM == dsumm0 && g.UMS == ums0 && g.NH4Sum == nh4s0 && g.NH4UMS == nh4u0 && g.MZ == 1
		for z := 0; z <= n; z++ {
			same = same && g.C1[z] == c1old[z]
		}
		vAssert("C07.measureday.nothing_changes_on_other_days", same)
	}
	vObserve("ums", g.UMS)
}
