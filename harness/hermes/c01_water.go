package hermes

// C01 / C06: one call of Water from an arbitrary state.

func init() {
	vRegister("zzC01WaterStep", func(a []int) { zzC01WaterStep(a[0], a[1], a[2]) })
}

// zzWaterState builds an arbitrary pre-state of Water for n layers.
// wdtDen > 0: wdt = 1/wdtDen (concrete); wdtDen == 0: wdt symbolic in (0,1].
func zzWaterState(n, wdtDen int) (g *GlobalVarsMain, l *WaterSharedVars, wdt float64) {
	g = new(GlobalVarsMain)
	l = new(WaterSharedVars)
	g.N = n
	g.DZ = NewDualType(10, 0)
	if wdtDen > 0 {
		wdt = 1.0 / float64(wdtDen)
	} else {
		wdt = vFloat("wdt")
		vAssume(wdt > 0 && wdt <= 1)
	}
	for i := 0; i < n; i++ {
		g.WMIN[i] = vFloat("wmin", i)
		g.W[i] = vFloat("w", i)
		g.PORGES[i] = vFloat("porges", i)
		vAssume(0 < g.WMIN[i] && g.WMIN[i] < g.W[i] && g.W[i] <= g.PORGES[i] && g.PORGES[i] < 1)
		g.WG[0][i] = vFloat("wg0", i)
		g.WG[1][i] = vFloat("wg1", i)
		g.TP[i] = vFloat("tp", i)
		vAssume(g.TP[i] >= 0)
		l.NFK[i] = vFloat("nfk", i)
		vAssume(l.NFK[i] >= 0)
		l.EV[i] = vFloat("ev", i)
		vAssume(l.EV[i] >= 0)
	}
	for i := 0; i < 21; i++ {
		g.CAPS[i] = vFloat("caps", i)
		vAssume(g.CAPS[i] >= 0)
	}
	g.FLUSS0 = vFloat("fluss0")
	g.DRAIDEP = vInt("draidep")
	vAssume(g.DRAIDEP >= 0 && g.DRAIDEP <= n)
	g.DRAIFAK = vFloat("draifak")
	vAssume(g.DRAIFAK >= 0 && g.DRAIFAK <= 1)
	g.OUTN = vInt("outn")
	vAssume(g.OUTN >= 1 && g.OUTN <= n)
	g.GRW = vFloat("grw")
	vAssume(g.GRW >= 0 && g.GRW <= 100)
	l.GWAUF = vFloat("gwauf")
	g.AKF = NewDualType(0, 1)
	g.SAAT[0] = vInt("saat")
	g.SICKER = vFloat("sicker")
	g.CAPSUM = vFloat("capsum")
	g.DRAISUM = vFloat("draisum")
	g.INFILT = vFloat("infilt")
	return
}

func zzC01WaterStep(n, wdtDen, first int) {
	g, l, wdt := zzWaterState(n, wdtDen)
	zeit := vInt("zeit")
	subd := 1
	src := 0
	if first == 0 {
		subd = 2
		src = 1
	}
	var w0 [21]float64
	s0 := 0.0
	for i := 0; i < n; i++ {
		w0[i] = g.WG[src][i] * g.DZ.Num
		s0 += w0[i]
	}
	sicker0, capsum0, draisum0, infilt0 := g.SICKER, g.CAPSUM, g.DRAISUM, g.INFILT

	Water(wdt, subd, zeit, g, l)

	s1 := 0.0
	tp := 0.0
	for i := 0; i < n; i++ {
		s1 += g.WG[1][i] * g.DZ.Num
		tp += g.TP[i] * wdt
	}
	eps := 1e-9
	vCover("C01.reach")
	for i := 0; i < n; i++ {
		vObserve("wg1", g.WG[1][i])
		vObserve("q1", g.Q1[i+1])
	}
	vObserve("qdrain", g.QDRAIN)
	vObserve("sicker", g.SICKER)
	vObserve("capsum", g.CAPSUM)
	// profile balance
	vAssert("C01.profile_balance", vNear(s1-s0, g.FLUSS0*wdt-tp-g.Q1[n]-g.QDRAIN, eps))
	// per-layer continuity with the inter-layer flux array
	for i := 0; i < n; i++ {
		in := g.Q1[i]
		if i == 0 {
			in = g.FLUSS0 * wdt
		}
		dr := 0.0
		if i+1 == g.DRAIDEP {
			dr = g.QDRAIN
		}
		vAssert("C01.layer_continuity", vNear(g.WG[1][i]*g.DZ.Num-w0[i], in-g.Q1[i+1]-g.TP[i]*wdt-dr, eps))
	}
	// cumulative counters mirror the fluxes
	vAssert("C01.counter_bottom", vNear((g.SICKER-sicker0)+(g.CAPSUM-capsum0), 10*g.Q1[g.OUTN]-10*l.GWAUF*wdt, eps))
	vAssert("C01.counter_sicker_monotone", g.SICKER >= sicker0)
	vAssert("C01.counter_drain", vNear(g.DRAISUM-draisum0, 10*g.QDRAIN, eps))
	if g.FLUSS0 > 0 {
		vAssert("C01.counter_infilt", vNear(g.INFILT-infilt0, g.FLUSS0*wdt, eps))
	} else {
		vAssert("C01.counter_infilt", g.INFILT == infilt0)
	}
	// FLUX post-conditions used by the nitrogen transport (C02)
	vAssert("C01.flux_qdrain_nonneg", g.QDRAIN >= 0)
	if g.QDRAIN > 0 {
		vAssert("C01.flux_qdrain_only_infiltration", g.FLUSS0 > 0 && g.DRAIDEP >= 1)
	}
	// coverage witnesses
	if g.FLUSS0 > 0 && g.Q1[n] > 0 {
		vCover("C01.cover_infiltration_reaches_bottom")
	}
	if g.FLUSS0 < 0 && g.Q1[n] < 0 {
		vCover("C01.cover_evaporation_from_below")
	}
	if g.QDRAIN > 0 {
		vCover("C01.cover_drain")
	}
}

func init() {
	vRegister("zzC02WaterReach", func(a []int) { zzC02WaterReach(a[0]) })
}

// zzC02WaterReach: backward-reachability link for C02. On the first sub-step of
// a day, with the available-water fraction NFK consistent with the water
// content the same day (as Evatra computes it), can Water hand nmove a state
// with drain outflow and an upward flux at the drain depth?
func zzC02WaterReach(n int) {
	g, l, wdt := zzWaterState(n, 1)
	for i := 0; i < n; i++ {
		g.WNOR[i] = vFloat("wnor", i)
		vAssume(g.WMIN[i] < g.WNOR[i] && g.WNOR[i] <= g.W[i])
		vAssume(g.WG[0][i] >= g.WMIN[i]/3 && g.WG[0][i] <= g.W[i])
		nfk := (g.WG[0][i] - g.WMIN[i]) / (g.WNOR[i] - g.WMIN[i])
		if i == 0 {
			nfk = (g.WG[0][0] + g.FLUSS0/g.DZ.Num - g.WMIN[0]) / (g.WNOR[0] - g.WMIN[0])
		}
		if nfk < 0 {
			nfk = 0
		}
		l.NFK[i] = nfk
		vAssume(g.TP[i] == 0)
	}
	vAssume(g.FLUSS0 > 0 && g.FLUSS0 < 20)
	vAssume(g.DRAIDEP >= 1)
	for i := 0; i < 21; i++ {
		vAssume(g.CAPS[i] <= 0.55)
	}
	Water(wdt, 1, 5, g, l)
	vAssert("C02.link.no_drain_with_upward_flux", !(g.QDRAIN > 0 && g.Q1[g.DRAIDEP] < 0))
}
