package hermes

import "strings"

// C05: a record has as many fields as columns only if no value written into it contains the field separator
// (text values are written verbatim). The text-valued variables that the shipped output configurations bind and
// that the model itself produces during a run are the instability texts of the N transport routine: after one
// call of nmove from an arbitrary state they contain no field separator (',' or ';') and no line break, whatever
// number of layers was unstable.

func init() {
	vRegister("zzC05TextValues", func(a []int) { zzC05TextValues(a[0]) })
}

func zzC05TextValues(n int) {
	g, l, wdt := zzNmoveState(n, 0)
	// water contents fixed so that the dispersion coefficient's exponential is a number and a counterexample
	// replays natively with the real math library; every other input is symbolic
	for i := 0; i <= n; i++ {
		g.WG[0][i] = 0.3
	}
	g.C1NotStableErr = ""
	zeit := vInt("zeit")
	nmove(wdt, 1, zeit, g, l)
	vCover("C05.text.reach")
	if g.C1NotStable != "" {
		vCover("C05.text.cover_unstable")
	}
	vAssert("C05.text.instability_text_holds_no_field_separator", !strings.ContainsAny(g.C1NotStable, ",;\n\r"))
	vAssert("C05.text.sticky_instability_text_holds_no_field_separator", !strings.ContainsAny(g.C1NotStableErr, ",;\n\r"))
	vObserveStr("text", g.C1NotStable)
}
