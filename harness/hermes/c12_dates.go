package hermes

// C12: date conversion. Reference calendar (leap <=> year divisible by 4 in 1901..2099)
// is written here; the real DateConverter / KalenderConverter / KalenderDate closures are executed.

func init() {
	vRegister("zzC12NumRoundTrip", func(a []int) { zzC12NumRoundTrip(a[0], a[1]) })
	vRegister("zzC12Successor", func(a []int) { zzC12Successor() })
	vRegister("zzC12TextRoundTrip", func(a []int) { zzC12TextRoundTrip(a[0], a[1], a[2]) })
}

const zzLastDay = 72684 // 31.12.2099 = 199*365 + 49 leap days

func zzLeap(y int) bool { return y%4 == 0 }

func zzDaysInMonth(m, y int) int {
	switch m {
	case 2:
		if zzLeap(y) {
			return 29
		}
		return 28
	case 4, 6, 9, 11:
		return 30
	}
	return 31
}

func zzDoy(d, m, y int) int {
	s := d
	for k := 1; k < 12; k++ {
		if k < m {
			s += zzDaysInMonth(k, y)
		}
	}
	return s
}

func zzSep(sep int) string {
	switch sep {
	case 1:
		return "."
	case 2:
		return "/"
	case 3:
		return "-"
	}
	return ""
}

// day number -> text -> day number, plus calendar validity of KalenderDate
func zzC12NumRoundTrip(format, sep int) {
	n := vInt("n")
	vAssume(n >= 1 && n <= zzLastDay)
	kal := KalenderConverter(DateFormat(format), zzSep(sep))
	cent := vInt("cent")
	vAssume(cent >= 1 && cent <= 99)
	dat := DateConverter(cent, DateFormat(format))
	y, m, d := KalenderDate(n)
	vObserveInt("y", y)
	vObserveInt("m", m)
	vObserveInt("d", d)
	vCover("C12.num.reach")
	vAssert("C12.kalenderdate_valid", y >= 1901 && y <= 2099 && m >= 1 && m <= 12 && d >= 1 && d <= zzDaysInMonth(m, y))
	short := format == int(DateDEshort) || format == int(DateENshort)
	if short {
		// short formats: the year must be unambiguous for the century split
		vAssume(y >= 1900+cent && y <= 1999+cent)
	}
	s := kal(n)
	zt, mas := dat(s)
	vObserveInt("mas", mas)
	vAssert("C12.num_text_num_roundtrip", mas == n)
	vAssert("C12.day_of_year", zt == zzDoy(d, m, y))
}

// consecutive day numbers are consecutive calendar days
func zzC12Successor() {
	n := vInt("n")
	vAssume(n >= 1 && n < zzLastDay)
	y, m, d := KalenderDate(n)
	y2, m2, d2 := KalenderDate(n + 1)
	vCover("C12.succ.reach")
	ey, em, ed := y, m, d+1
	if d == zzDaysInMonth(m, y) {
		ed = 1
		em = m + 1
		if m == 12 {
			em = 1
			ey = y + 1
		}
	}
	vAssert("C12.successor", y2 == ey && m2 == em && d2 == ed)
	if n == 1 {
		vAssert("C12.first_day", y == 1901 && m == 1 && d == 1)
	}
	// leap years are exactly the years divisible by four: 29 February exists iff y%4 == 0
	if m == 2 && d == 29 {
		vCover("C12.cover_leap_day")
		vAssert("C12.leap_iff_div4", y%4 == 0)
	}
	if m == 2 && d == 28 && y%4 == 0 {
		vAssert("C12.leap_has_feb29", m2 == 2 && d2 == 29)
	}
}

func zzDigits2(name string) (int, byte, byte) {
	a := vByte(name, 0)
	b := vByte(name, 1)
	vAssume(a >= '0' && a <= '9' && b >= '0' && b <= '9')
	return int(a-'0')*10 + int(b-'0'), a, b
}

// text -> day number -> text for every valid date text
func zzC12TextRoundTrip(format, sep, centSel int) {
	short := format == int(DateDEshort) || format == int(DateENshort)
	de := format == int(DateDEshort) || format == int(DateDElong)
	f1, a0, a1 := zzDigits2("f")
	f2, b0, b1 := zzDigits2("g")
	d, m := f1, f2
	if !de {
		d, m = f2, f1
	}
	var bs []byte
	bs = append(bs, a0, a1)
	sp := zzSep(sep)
	if sp != "" {
		bs = append(bs, sp[0])
	}
	bs = append(bs, b0, b1)
	if sp != "" {
		bs = append(bs, sp[0])
	}
	cent := centSel
	if centSel == 0 {
		cent = vInt("cent") // every century split
		vAssume(cent >= 1 && cent <= 99)
	}
	y := 0
	if short {
		yy, c0, c1 := zzDigits2("y")
		bs = append(bs, c0, c1)
		if yy < cent {
			y = 2000 + yy
		} else {
			y = 1900 + yy
		}
		// unambiguous and inside the supported range
		vAssume(y >= 1901 && y <= 2099)
	} else {
		hi, c0, c1 := zzDigits2("y")
		lo, c2, c3 := zzDigits2("z")
		bs = append(bs, c0, c1, c2, c3)
		y = hi*100 + lo
		vAssume(y >= 1901 && y <= 2099)
	}
	vAssume(m >= 1 && m <= 12 && d >= 1 && d <= zzDaysInMonth(m, y))
	text := string(bs)
	dat := DateConverter(cent, DateFormat(format))
	kal := KalenderConverter(DateFormat(format), sp)
	zt, mas := dat(text)
	vObserveInt("mas", mas)
	vCover("C12.text.reach")
	vAssert("C12.text_daynumber_in_range", mas >= 1 && mas <= zzLastDay)
	vAssert("C12.text_day_of_year", zt == zzDoy(d, m, y))
	back := kal(mas)
	vAssert("C12.text_num_text_roundtrip", back == text)
}
