package hermes

// C06: water content bounds after one Water step; initial state; W = PORGES below groundwater.

func init() {
	vRegister("zzC06WaterBounds", func(a []int) { zzC06WaterBounds(a[0], a[1], a[2]) })
	vRegister("zzC06Init", func(a []int) { zzC06Init(a[0]) })
}

func zzC06WaterBounds(n, wdtDen, first int) {
	g, l, wdt := zzWaterState(n, wdtDen)
	zeit := vInt("zeit")
	subd := 1
	src := 0
	if first == 0 {
		subd = 2
		src = 1
	}
	capsMax := 0.0
	for i := 0; i < 21; i++ {
		if g.CAPS[i] > capsMax {
			capsMax = g.CAPS[i]
		}
	}
	var w0 [21]float64
	for i := 0; i < n; i++ {
		w0[i] = g.WG[src][i]
		// WSTATE: not below the dryness limit at the start of the step
		vAssume(w0[i] >= g.WMIN[i]/3)
		if first == 0 {
			// later sub-steps: the uptake of this sub-step fits into the water above the dryness limit
			// (established on the first sub-step, where uptake is clamped to plant-available water)
			vAssume(g.TP[i]*wdt <= (w0[i]-g.WMIN[i]/3)*g.DZ.Num)
		}
	}
	Water(wdt, subd, zeit, g, l)
	eps := 1e-9
	vCover("C06.reach")
	for i := 0; i < n; i++ {
		vObserve("wg1", g.WG[1][i])
		vAssert("C06.upper_fc_plus_caprise", g.WG[1][i] <= g.W[i]+capsMax*wdt+eps)
		vAssert("C06.lower_dryness_limit", g.WG[1][i] >= g.WMIN[i]/3-eps)
	}
	if g.FLUSS0 < 0 {
		vCover("C06.cover_evaporation")
	}
}

// zzC06Init: the initial water state and the below-groundwater rule.
func zzC06Init(n int) {
	g := new(GlobalVarsMain)
	g.N = n
	g.DZ = NewDualType(10, 0)
	g.TAG = NewDualType(0, 1)
	g.NDG = NewDualType(0, 1)
	g.NTIL = NewDualType(0, 1)
	g.ITAG = 100
	g.TMIN[99] = vFloat("tmin")
	g.TMAX[99] = vFloat("tmax")
	g.TBASE = vFloat("tbase")
	g.GROUNDWATERFROM = Soilfile
	g.GRW = vFloat("grw")
	vAssume(g.GRW >= 1 && g.GRW <= 100)
	g.FEU = vInt("feu")
	vAssume(g.FEU >= 1 && g.FEU <= 3)
	g.NALTOS = vFloat("naltos")
	var fc0 [21]float64
	for i := 0; i < n; i++ {
		g.WMIN[i] = vFloat("wmin", i)
		g.W[i] = vFloat("w", i)
		g.PORGES[i] = vFloat("porges", i)
		vAssume(0 < g.WMIN[i] && g.WMIN[i] < g.W[i] && g.W[i] <= g.PORGES[i] && g.PORGES[i] < 1)
		fc0[i] = g.W[i]
		g.CN[0][i] = vFloat("cn", i)
	}
	Init(g)
	vCover("C06.init.reach")
	eps := 1e-9
	for i := 0; i < n; i++ {
		vObserve("w", g.W[i])
		vObserve("wg0", g.WG[0][i])
		// parameters stay ordered
		vAssert("C06.init.params_ordered", g.WMIN[i] < g.W[i] && g.W[i] <= g.PORGES[i]+eps && g.W[i] >= fc0[i]-eps)
		// field capacity equals pore volume for layers entirely below the table
		if float64(i) >= g.GRW+1 {
			vAssert("C06.init.fc_is_pore_volume_below_gw", vNear(g.W[i], g.PORGES[i], eps))
		}
		// initial water content within [wilting point, pore volume]; saturated below the table
		vAssert("C06.init.wg_in_range", g.WG[0][i] >= g.WMIN[i]-eps && g.WG[0][i] <= g.PORGES[i]+eps)
		if float64(i)+1 >= g.GRW {
			vAssert("C06.init.saturated_below_gw", vNear(g.WG[0][i], g.PORGES[i], eps))
		} else {
			vAssert("C06.init.wg_le_fc_above_gw", g.WG[0][i] <= g.W[i]+eps)
		}
	}
}

func init() {
	vRegister("zzC06Day", func(a []int) { zzC06Day(a[0], a[1]) })
}

// zzC06Day: a whole day split into k sub-steps (Water called with subd = 1..k, wdt = 1/k, as the
// day loop does): bounds after every sub-step and the day-level water balance (C01).
func zzC06Day(n, k int) {
	g, l, wdt := zzWaterState(n, k)
	zeit := vInt("zeit")
	capsMax := 0.0
	for i := 0; i < 21; i++ {
		if g.CAPS[i] > capsMax {
			capsMax = g.CAPS[i]
		}
	}
	var wgStart [21]float64
	for i := 0; i < n; i++ {
		wgStart[i] = g.WG[0][i]
	}
	s0 := 0.0
	for i := 0; i < n; i++ {
		// day start between the dryness limit and field capacity. Outside the claim: a day that starts
		// above field capacity by the previous day's capillary increment on a soil whose water between
		// field capacity and the dryness limit is less than one sub-step's uptake (see DESIGN, C06)
		vAssume(g.WG[0][i] >= g.WMIN[i]/3 && g.WG[0][i] <= g.W[i])
		// magnitudes of the evapotranspiration demands (C08: potential ET <= 0.65 cm/d)
		vAssume(g.TP[i] <= 0.65 && l.EV[i] <= 0.65 && g.WMIN[i] >= 0.01)
		s0 += g.WG[0][i] * g.DZ.Num
	}
	// UPTAKE invariant (post-conditions of Evatra's evaporation distribution): actual evaporation
	// is at most the daily cap, the layer shares add up to it, and a layer's share per unit of
	// water above its dryness limit does not increase with depth (exponential depth weighting)
	vAssume(g.FLUSS0 >= -0.65)
	evsum := 0.0
	for i := 0; i < n; i++ {
		evsum += l.EV[i]
		if i+1 < n && n >= 3 {
			vAssume(l.EV[i+1]*(g.WG[0][i]-g.WMIN[i]/3) <= l.EV[i]*(g.WG[0][i+1]-g.WMIN[i+1]/3))
		}
	}
	if g.FLUSS0 < 0 {
		vAssume(vNear(evsum, -g.FLUSS0, 1e-12))
	} else {
		vAssume(evsum == 0)
	}
	eps := 1e-9
	bottom, drain := 0.0, 0.0
	for subd := 1; subd <= k; subd++ {
		Water(wdt, subd, zeit, g, l)
		bottom += g.Q1[n]
		drain += g.QDRAIN
		for i := 0; i < n; i++ {
			vAssert("C06.day.upper_after_every_substep", g.WG[1][i] <= g.W[i]+capsMax*wdt+eps)
			vAssert("C06.day.lower_after_every_substep", g.WG[1][i] >= g.WMIN[i]/3-eps)
		}
	}
	vCover("C06.day.reach")
	s1, tp := 0.0, 0.0
	for i := 0; i < n; i++ {
		s1 += g.WG[1][i] * g.DZ.Num
		tp += g.TP[i]
		vObserve("wg1", g.WG[1][i])
	}
	// C08: over the whole day a layer gives at most its plant-available water of the day's start
	// (TP is the daily uptake, withdrawn as TP*wdt in each of the k sub-steps)
	for i := 0; i < n; i++ {
		paw := (wgStart[i] - g.WMIN[i]) * g.DZ.Num
		if paw < 0 {
			paw = 0
		}
		vAssert("C08.day.uptake_le_plant_available_water", g.TP[i] <= paw+eps)
	}
	// C01 at day level: the sub-steps neither create nor lose water
	vAssert("C01.day.balance_over_substeps", vNear(s1-s0, g.FLUSS0-tp-bottom-drain, eps))
}
