package hermes

// C07: mineralisation bookkeeping (one call of mineral from an arbitrary state).

func init() {
	vRegister("zzC07Mineral", func(a []int) { zzC07Mineral(a[0]) })
}

func zzC07Mineral(layers int) {
	g := new(GlobalVarsMain)
	l := new(NitroSharedVars)
	g.DZ = NewDualType(10, 0)
	g.IZM = 10 * layers
	g.N = layers + 1
	// Arrhenius rates at the upper end of the soil temperature domain (C19: <= 60 C)
	vLemmaPoint("Exp", -8400./(60.5+273.16))
	vLemmaPoint("Exp", -9800./(60.5+273.16))
	for i := 0; i <= layers; i++ {
		g.TD[i] = vFloat("td", i)
		vAssume(-60 <= g.TD[i] && g.TD[i] <= 60)
	}
	g.WRED = vFloat("wred")
	var aos0, fos0, maos0, mfos0 [4]float64
	for i := 0; i < layers; i++ {
		g.WMIN[i] = vFloat("wmin", i)
		g.WNOR[i] = vFloat("wnor", i)
		g.W[i] = vFloat("w", i)
		g.PORGES[i] = vFloat("porges", i)
		vAssume(0 < g.WMIN[i] && g.WMIN[i] < g.WNOR[i] && g.WNOR[i] <= g.W[i] && g.W[i] <= g.PORGES[i] && g.PORGES[i] < 1)
		g.WG[0][i] = vFloat("wg", i)
		vAssume(g.WMIN[i]/3 <= g.WG[0][i] && g.WG[0][i] <= g.PORGES[i])
		g.NAOS[i] = vFloat("naos", i)
		g.NFOS[i] = vFloat("nfos", i)
		g.MINAOS[i] = vFloat("minaos", i)
		g.MINFOS[i] = vFloat("minfos", i)
		vAssume(g.NAOS[i] >= 0 && g.NFOS[i] >= 0 && g.MINAOS[i] >= 0 && g.MINFOS[i] >= 0)
		aos0[i], fos0[i], maos0[i], mfos0[i] = g.NAOS[i], g.NFOS[i], g.MINAOS[i], g.MINFOS[i]
		// outputs of the routine start from arbitrary (stale) values of the previous day
		g.DN[i] = vFloat("stale_dn", i)
		l.DUMS[i] = vFloat("stale_dums", i)
		l.DNH4UMS[i] = vFloat("stale_dnh4", i)
	}
	// C15: threshold strictly between wilting point and field capacity of the top layer
	vAssume(g.WMIN[0] < g.WRED && g.WRED < g.WNOR[0])
	g.DSUMM = vFloat("dsumm")
	g.UMS = vFloat("ums")
	g.NH4Sum = vFloat("nh4sum")
	g.NH4UMS = vFloat("nh4ums")
	vAssume(0 <= g.UMS && g.UMS <= g.DSUMM && 0 <= g.NH4UMS && g.NH4UMS <= g.NH4Sum)
	g.N2onitsum = vFloat("n2osum")
	vAssume(g.N2onitsum >= 0)
	g.MINSUM = vFloat("minsum")
	ums0, n2o0 := g.UMS, g.N2onitsum

	mineral(g, l)

	vCover("C07.mineral.reach")
	eps := 1e-9
	sumDN, dPools := 0.0, 0.0
	for i := 0; i < layers; i++ {
		vObserve("naos", g.NAOS[i])
		vObserve("nfos", g.NFOS[i])
		vObserve("dn", g.DN[i])
		// what leaves the pool is what the mineralised counter gains
		vAssert("C07.slow_pool_plus_counter_constant", vNear(g.NAOS[i]+g.MINAOS[i], aos0[i]+maos0[i], eps))
		vAssert("C07.fast_pool_plus_counter_constant", vNear(g.NFOS[i]+g.MINFOS[i], fos0[i]+mfos0[i], eps))
		vAssert("C07.pools_nonneg", g.NAOS[i] >= 0 && g.NFOS[i] >= 0)
		vAssert("C07.counters_monotone", g.MINAOS[i] >= maos0[i] && g.MINFOS[i] >= mfos0[i])
		sumDN += g.DN[i]
		dPools += (g.MINAOS[i] - maos0[i]) + (g.MINFOS[i] - mfos0[i])
		if i > 0 {
			// below the top layer the source term is exactly that layer's net mineralisation minus its N2O share;
			// in particular nothing is carried over from the previous day
			vAssert("C07.source_term_layer_fresh", g.DN[i] <= (g.MINAOS[i]-maos0[i])+(g.MINFOS[i]-mfos0[i])+eps && g.DN[i] >= -eps-0.01*((g.MINAOS[i]-maos0[i])+(g.MINFOS[i]-mfos0[i])))
		}
	}
	// dissolved fertiliser never exceeds fertiliser applied
	vAssert("C07.dissolved_le_applied", g.UMS >= ums0 && g.UMS <= g.DSUMM+eps)
	vAssert("C07.nitrified_le_ammonium", g.NH4UMS <= g.NH4Sum+eps)
	vAssert("C07.n2o_counter_monotone", g.N2onitsum >= n2o0-eps)
	// the source term handed to transport is exactly net mineralisation + dissolution - N2O
	vAssert("C07.source_term_matches_counters", vNear(sumDN, dPools+(g.UMS-ums0)-(g.N2onitsum-n2o0), eps))
	if g.TD[0]+g.TD[1] <= 0 {
		vCover("C07.cover_frozen_top")
	}
}

func init() {
	vRegister("zzC07Credit", func(a []int) { zzC07Credit(a[0], a[1], a[2]) })
}

// zzC07Credit: crop N uptake and N fixation are credited to the crop on the
// first sub-step of a day only.
func zzC07Credit(n, wdtDen, first int) {
	g, l, wdt := zzNmoveState(n, wdtDen)
	zeit := vInt("zeit")
	subd := 2
	if first == 1 {
		subd = 1
	}
	pesum0, aufna0 := g.PESUM, g.AUFNASUM
	inWindow := zeit >= g.SAAT[0] && zeit <= g.ERNTE2[0]
	nmove(wdt, subd, zeit, g, l)
	vCover("C07.credit.reach")
	upt := 0.0
	for i := 0; i < n; i++ {
		upt += g.PE[i]
	}
	eps := 1e-9
	if subd == 1 {
		fix := 0.0
		if inWindow {
			fix = g.SCHNORR
			vCover("C07.credit.cover_fixation_day")
		}
		vAssert("C07.credit.first_substep_credits_uptake_and_fixation", vNear(g.PESUM-pesum0, upt+fix, eps))
		vAssert("C07.credit.uptake_counter", vNear(g.AUFNASUM-aufna0, upt, eps))
	} else {
		if inWindow && g.SCHNORR > 0 {
			vCover("C07.credit.cover_later_substep_with_fixation")
		}
		vAssert("C07.credit.later_substeps_credit_nothing", g.PESUM == pesum0 && g.AUFNASUM == aufna0)
	}
}
