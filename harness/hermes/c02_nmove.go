package hermes

import "strings"

// C02: one call of the transport routine nmove from an arbitrary state that
// satisfies the SOIL / NSTATE / FLUX conditions (FLUX = post-conditions of
// Water proved under C01).

func init() {
	vRegister("zzC02Nmove", func(a []int) { zzC02Nmove(a[0], a[1], a[2], a[3], a[4]) })
}

func zzNmoveState(n, wdtDen int) (g *GlobalVarsMain, l *NitroSharedVars, wdt float64) {
	g = new(GlobalVarsMain)
	l = new(NitroSharedVars)
	g.N = n
	g.DZ = NewDualType(10, 0)
	if wdtDen > 0 {
		wdt = 1.0 / float64(wdtDen)
	} else {
		wdt = vFloat("wdt")
		vAssume(wdt > 0 && wdt <= 1)
	}
	for i := 0; i < n; i++ {
		g.W[i] = vFloat("w", i)
		vAssume(0.01 <= g.W[i] && g.W[i] < 1)
		g.WG[0][i] = vFloat("wg0", i)
		vAssume(0.003 <= g.WG[0][i] && g.WG[0][i] < 1)
		g.C1[i] = vFloat("c1", i)
		vAssume(g.C1[i] >= 0)
		g.DN[i] = vFloat("dn", i)
		g.PE[i] = vFloat("pe", i)
		g.AD[i] = vFloat("ad", i)
		vAssume(g.AD[i] >= 0)
	}
	g.W[n] = g.W[n-1]
	g.WG[0][n] = g.WG[0][n-1]
	for i := 1; i <= n; i++ {
		g.Q1[i] = vFloat("q1", i)
	}
	g.DV = vFloat("dv")
	vAssume(g.DV >= 0)
	g.FLUSS0 = vFloat("fluss0")
	g.QDRAIN = vFloat("qdrain")
	g.DRAIDEP = vInt("draidep")
	vAssume(g.DRAIDEP >= 0 && g.DRAIDEP <= n)
	// FLUX (C01 post-conditions of Water)
	vAssume(g.QDRAIN >= 0)
	if g.QDRAIN > 0 {
		vAssume(g.FLUSS0 > 0 && g.DRAIDEP >= 1)
	}
	g.OUTN = n // leaching depth at the profile bottom (property's quantifier)
	g.C1stabilityVal = vFloat("c1stab")
	vAssume(g.C1stabilityVal <= 0)
	g.AKF = NewDualType(0, 1)
	g.SAAT[0] = vInt("saat")
	g.ERNTE2[0] = vInt("ernte2")
	g.SCHNORR = vFloat("schnorr")
	vAssume(g.SCHNORR >= 0)
	g.OUTSUM = vFloat("outsum")
	g.DRAINLOSS = vFloat("drainloss")
	g.PESUM = vFloat("pesum")
	g.AUFNASUM = vFloat("aufnasum")
	return
}

// signs: bit i (i < n) set = Q1[i+1] >= 0, bit n set = FLUSS0 >= 0; signs < 0 = no case split.
// Enumerating all 2^(n+1) sign patterns covers every flux field.
func zzC02Nmove(n, wdtDen, first, signs, global int) {
	g, l, wdt := zzNmoveState(n, wdtDen)
	if signs >= 0 {
		for i := 0; i <= n; i++ {
			pos := (signs>>uint(i))&1 == 1
			if i < n {
				if pos {
					vAssume(g.Q1[i+1] >= 0)
				} else {
					vAssume(g.Q1[i+1] < 0)
				}
			} else {
				if pos {
					vAssume(g.FLUSS0 >= 0)
				} else {
					vAssume(g.FLUSS0 < 0)
				}
			}
		}
	}
	zeit := vInt("zeit")
	subd := 2
	if first == 1 {
		subd = 1
	}
	var c0, pe0 [21]float64
	sum0 := 0.0
	src := 0.0
	for i := 0; i < n; i++ {
		c0[i] = g.C1[i]
		pe0[i] = g.PE[i]
		sum0 += g.C1[i]
		src += g.DN[i] * wdt
	}
	outsum0, drain0, aufna0 := g.OUTSUM, g.DRAINLOSS, g.AUFNASUM

	// "no clamp" region: sources cannot drive a layer negative
	noClampIn := true
	for i := 0; i < n; i++ {
		if g.DN[i] < 0 {
			noClampIn = false
		}
	}

	nmove(wdt, subd, zeit, g, l)

	sum1 := 0.0
	upt := 0.0
	for i := 0; i < n; i++ {
		sum1 += g.C1[i]
		vObserve("c1", g.C1[i])
		if subd == 1 {
			upt += g.PE[i]
			// uptake clamped to what the layer holds above 0.5 kg N/ha
			vAssert("C02.uptake_clamped", g.PE[i] >= 0 && (g.PE[i] <= c0[i]-0.5 || g.PE[i] == 0) && (g.PE[i] <= pe0[i] || g.PE[i] == 0))
		}
		vAssert("C02.c1_nonneg", g.C1[i] >= 0)
	}
	vObserve("outsum", g.OUTSUM)
	vObserve("drainloss", g.DRAINLOSS)
	eps := 1e-7
	vCover("C02.reach")
	lhs := sum1 + (g.OUTSUM - outsum0) + (g.DRAINLOSS - drain0)
	rhs := sum0 - upt + src
	// transport (convection + dispersion) only moves N between layers, the
	// bottom and the drain; clamps may only add
	stable := g.C1NotStable == ""
	if vKnown("C02-drain-upward-flux") {
		// recorded finding: drain credited while the flux at drain depth is upward
		vAssume(!(g.QDRAIN > 0 && g.DRAIDEP >= 1 && g.Q1[g.DRAIDEP] < 0))
	}
	// decomposition of the balance over the routine's own flux arrays:
	// (A) every layer is updated by its dispersion and convection terms and half
	//     the source before / after, with the three non-negativity clamps;
	// (B) dispersion is a difference of interface fluxes (sums to zero);
	// (C) convection sums to what leaves through the bottom and the drain.
	sumDisp, sumKonv := 0.0, 0.0
	exceeded := false
	stabThreshold := vFloat("c1stab") // the configured threshold (a negative number; default -1.5)
	for i := 0; i < n; i++ {
		m := c0[i] + g.DN[i]*wdt/2
		if subd == 1 {
			m = c0[i] - g.PE[i] + g.DN[i]*wdt/2
		}
		if m < 0 {
			m = 0
		}
		ck := m + (l.DISP[i]-l.KONV[i])*g.DZ.Num*100
		if ck < stabThreshold {
			exceeded = true
		}
		if ck < 0 {
			ck = 0
		}
		ck = ck + g.DN[i]*wdt/2
		if ck < 0 {
			ck = 0
		}
		vAssert("C02.layer_update", vNear(g.C1[i], ck, eps))
		sumDisp += l.DISP[i]
		sumKonv += l.KONV[i]
	}
	vAssert("C02.dispersion_telescopes", vNear(sumDisp*1000, 0, eps))
	// the non-negativity clamp flags the run exactly when it cuts off more than the configured threshold (default 1.5 kg N/ha)
	if n <= 3 {
		vAssert("C02.instability_flag_iff_clamp_exceeds_threshold", (g.C1NotStable != "") == exceeded && (g.C1NotStable != "") == !stable)
	}
	if exceeded {
		vCover("C02.cover_instability_flagged")
	}
	// the flag text is written into one column of the daily output (C05): it must not contain a field separator
	vAssert("C02.instability_text_fits_one_output_field", !strings.Contains(g.C1NotStable, ",") && !strings.Contains(g.C1NotStable, ";") && !strings.Contains(g.C1NotStable, "\n"))
	if signs >= 0 || n <= 2 {
		vAssert("C02.convection_balance", vNear(sumKonv*1000, (g.OUTSUM-outsum0)+(g.DRAINLOSS-drain0), eps))
	}
	// The day-level statement follows from (A)-(C) by linear arithmetic:
	//   sum C1' >= sum(m + 1000(DISP-KONV) + DN*wdt/2) >= sum(C1 - PE + DN*wdt) + 0 - (dOUTSUM + dDRAINLOSS)
	// with equality when no clamp fires. The direct global query is attempted
	// only when asked for (global != 0): it is nonlinear and often undecided.
	if global != 0 {
		vAssert("C02.clamp_never_removes", lhs >= rhs-eps)
		if noClampIn && stable && g.C1stabilityVal == 0 {
			vAssert("C02.transport_conserves", vNear(lhs, rhs, eps))
		}
	}
	if subd == 1 {
		vAssert("C02.uptake_counter", vNear(g.AUFNASUM-aufna0, upt, eps))
	} else {
		vAssert("C02.uptake_counter", g.AUFNASUM == aufna0)
	}
	if g.Q1[n] < 0 && signs < 0 {
		vCover("C02.cover_upward_flow_bottom")
	}
	if g.QDRAIN > 0 && signs < 0 {
		vCover("C02.cover_drain")
	}
	if !stable {
		vCover("C02.cover_unstable_flag")
	}
}
