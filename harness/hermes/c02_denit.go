package hermes

// C02: denitrification removes from the mineral N pool exactly what the cumulative counter gains.

func init() {
	vRegister("zzC02Denit", func(a []int) { zzC02Denit(a[0]) })
	vRegister("zzC02DenitLemma", func(a []int) { zzC02DenitLemma() })
}

// Michaelis-Menten term of the denitrification rate (g/ha/d -> kg/ha/d) is smaller than the nitrate present
func zzMichaelis(vmax, n float64) float64 {
	nq := n * n
	return (vmax * nq) / (nq + 74.) / 1000
}

// lemma, proved on its own: for every nitrate amount n > 0 the rate cap is below n (both Vmax values)
func zzC02DenitLemma() {
	n := vFloat("n")
	vAssume(n > 0 && n <= 6000)
	vCover("C02.denit.lemma.reach")
	vAssert("C02.denit.lemma_rate_below_nitrate", zzMichaelis(1274., n) < n && zzMichaelis(4242., n) < n)
}

// which: 0 = Denitr with fixed saturation, 1 = Denitr with pore volume, 2 = Denitmo (marsh soils)
func zzC02Denit(which int) {
	g := new(GlobalVarsMain)
	g.TAG = NewDualType(5, 1)
	layers := 3
	if which == 2 {
		layers = 9
	}
	sum0 := 0.0
	var c0 [9]float64
	for i := 0; i < layers; i++ {
		g.C1[i] = vFloat("c1", i)
		c0[i] = g.C1[i]
		vAssume(g.C1[i] >= 0 && g.C1[i] <= 2000)
		g.WG[1][i] = vFloat("wg", i)
		g.PORGES[i] = vFloat("porges", i)
		vAssume(0.05 <= g.PORGES[i] && g.PORGES[i] < 1 && 0 <= g.WG[1][i] && g.WG[1][i] <= g.PORGES[i])
		sum0 += g.C1[i]
	}
	for i := 0; i < 4; i++ {
		g.TSOIL[0][i] = vFloat("tsoil", i)
		vAssume(g.TSOIL[0][i] >= -60 && g.TSOIL[0][i] <= 60)
	}
	g.TEMP[5] = vFloat("temp")
	vAssume(g.TEMP[5] >= -60 && g.TEMP[5] <= 60)
	// the lemma above, applied to the three 30 cm sums (same expressions as in the code)
	for b := 0; b < layers/3; b++ {
		n := g.C1[3*b] + g.C1[3*b+1] + g.C1[3*b+2]
		if n > 0 {
			vAssume(zzMichaelis(1274., n) < n && zzMichaelis(4242., n) < n)
		}
	}
	g.CUMDENIT = vFloat("cumdenit")
	g.N2Odencum = vFloat("n2o")
	cum0 := g.CUMDENIT
	switch which {
	case 0:
		Denitr(g, false)
	case 1:
		Denitr(g, true)
	default:
		Denitmo(g)
	}
	vCover("C02.denit.reach")
	sum1 := 0.0
	for i := 0; i < layers; i++ {
		vObserve("c1", g.C1[i])
		sum1 += g.C1[i]
		vAssert("C02.denit.c1_nonneg", g.C1[i] >= 0)
		// (that each layer only loses nitrate is not asserted: the sign of the three-factor rate
		// product was left undecided by all solvers within 180 s)
		_ = c0[i]
	}
	// what the counter gains is what the profile loses
	vAssert("C02.denit.loss_equals_counter", vNear(sum0-sum1, g.CUMDENIT-cum0, 1e-7))
}
