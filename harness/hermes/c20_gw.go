package hermes

// C20: groundwater level from a time series.

func init() {
	vRegister("zzC20Series", func(a []int) { zzC20Series(a[0]) })
}

func zzC20Series(k int) {
	g := new(GlobalVarsMain)
	g.GWTimeSeriesValues = make(map[int]float64)
	var ts [8]int
	var val [8]float64
	for i := 0; i < k; i++ {
		ts[i] = vInt("ts", i)
		val[i] = vFloat("val", i)
		vAssume(ts[i] >= 1 && ts[i] <= 100000)
		if i > 0 {
			vAssume(ts[i] > ts[i-1]) // ascending series
		}
		g.GWTimeSeriesValues[ts[i]] = val[i]
		g.GWTimestamps = append(g.GWTimestamps, ts[i])
	}
	date := vInt("date")
	vAssume(date >= 1 && date <= 100000)
	level, err := GetGroundWaterLevel(g, date)
	vCover("C20.reach")
	vObserve("level", level)
	vAssert("C20.no_error_for_nonempty_series", err == nil)
	eps := 1e-9
	for i := 0; i < k; i++ {
		if date == ts[i] {
			vAssert("C20.exact_hit", level == val[i])
		}
		if i+1 < k && date > ts[i] && date < ts[i+1] {
			vCover("C20.cover_between")
			want := val[i] + (val[i+1]-val[i])*float64(date-ts[i])/float64(ts[i+1]-ts[i])
			vAssert("C20.linear_interpolation", vNear(level, want, eps))
			lo, hi := val[i], val[i+1]
			if lo > hi {
				lo, hi = hi, lo
			}
			vAssert("C20.between_neighbours", level >= lo-eps && level <= hi+eps)
		}
	}
	if date < ts[0] {
		vCover("C20.cover_before")
		vAssert("C20.nearest_before_first", level == val[0])
	}
	if date > ts[k-1] {
		vCover("C20.cover_after")
		vAssert("C20.nearest_after_last", level == val[k-1])
	}
}
