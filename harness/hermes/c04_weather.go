package hermes

// C04: weather normalisation, gap filling and the year lookup (year length shrunk to T days:
// the code is parametric in MaxYearDays; stated reduction).

func init() {
	vRegister("zzC04Transform", func(a []int) { zzC04Transform(a[0], a[1]) })
	vRegister("zzC04Missing", func(a []int) { zzC04Missing(a[0], a[1]) })
	vRegister("zzC04LoadYear", func(a []int) { zzC04LoadYear(a[0], a[1]) })
}

func zzC04Transform(yrz, T int) {
	s := NewWeatherDataShared(yrz, 400)
	corr := make(corrArr, 12)
	for k := 0; k < 12; k++ {
		corr[k] = vFloat("corr", k)
		vAssume(corr[k] >= 1 && corr[k] <= 2)
	}
	var reg, radi, win [3][8]float64
	for y := 0; y < yrz; y++ {
		s.MaxYearDays[y] = T
		for i := 0; i < T; i++ {
			reg[y][i] = vFloat("reg", y, i)
			radi[y][i] = vFloat("radi", y, i)
			win[y][i] = vFloat("win", y, i)
			vAssume(reg[y][i] >= 0 && radi[y][i] >= 0 && win[y][i] >= 0)
			s.REG[y][i], s.RADI[y][i], s.WIN[y][i] = reg[y][i], radi[y][i], win[y][i]
		}
	}
	s.transformWeatherData(yrz, corr)
	vCover("C04.transform.reach")
	eps := 1e-9
	for y := 0; y < yrz; y++ {
		for i := 0; i < T; i++ {
			vObserve("reg", s.REG[y][i])
			vObserve("win", s.WIN[y][i])
			// mm -> cm with the (January) correction factor; PAR = half of global radiation
			vAssert("C04.precip_mm_to_cm_with_correction", vNear(s.REG[y][i], reg[y][i]/10*corr[0], eps))
			vAssert("C04.par_is_half_global_radiation", vNear(s.RADI[y][i], radi[y][i]/2, eps))
			if !vKnown("C04-wind-floor-index") {
				want := win[y][i]
				if want < 0.5 {
					want = 0.5
				}
				vAssert("C04.wind_floor_every_day", s.WIN[y][i] == want)
			}
		}
	}
}

func zzC04Missing(yrz, T int) {
	s := NewWeatherDataShared(yrz, 400)
	none := vFloat("none")
	vAssume(none <= -90)
	var tmp, verd, sund, radi, reg [3][8]float64
	// years of different length (as leap and ordinary years): T, T-1, T, ...
	var ylen [3]int
	for y := 0; y < yrz; y++ {
		ylen[y] = T - y%2
		s.MaxYearDays[y] = ylen[y]
		for i := 0; i < ylen[y]; i++ {
			tmp[y][i] = vFloat("tmp", y, i)
			verd[y][i] = vFloat("verd", y, i)
			sund[y][i] = vFloat("sund", y, i)
			radi[y][i] = vFloat("radi", y, i)
			reg[y][i] = vFloat("reg", y, i)
			// real values are above the sentinel
			vAssume(tmp[y][i] == none || tmp[y][i] > -80)
			vAssume(verd[y][i] == none || verd[y][i] >= 0)
			vAssume(sund[y][i] == none || sund[y][i] >= 0)
			vAssume(radi[y][i] == none || radi[y][i] >= 0)
			vAssume(reg[y][i] == none || reg[y][i] >= 0)
			s.TMP[y][i], s.VERD[y][i], s.SUND[y][i], s.RADI[y][i], s.REG[y][i] = tmp[y][i], verd[y][i], sund[y][i], radi[y][i], reg[y][i]
		}
	}
	s.replaceMissingValues(yrz, none)
	vCover("C04.missing.reach")
	eps := 1e-9
	for y := 0; y < yrz; y++ {
		for i := 0; i < ylen[y]; i++ {
			vObserve("tmp", s.TMP[y][i])
			// calendar neighbours across the year change
			py, pi := y, i-1
			if pi < 0 {
				py = y - 1
				if py >= 0 {
					pi = ylen[py] - 1
				}
			}
			ny, ni := y, i+1
			if ni >= ylen[y] {
				ny, ni = y+1, 0
			}
			hasBoth := py >= 0 && ny < yrz
			// present values are never altered
			if tmp[y][i] != none {
				vAssert("C04.present_values_unchanged", s.TMP[y][i] == tmp[y][i])
			}
			if verd[y][i] != none {
				vAssert("C04.present_values_unchanged", s.VERD[y][i] == verd[y][i])
			}
			if radi[y][i] != none {
				vAssert("C04.present_values_unchanged", s.RADI[y][i] == radi[y][i])
			}
			if reg[y][i] != none {
				vAssert("C04.present_values_unchanged", s.REG[y][i] == reg[y][i])
			}
			if hasBoth {
				crossesYear := ny != y
				if crossesYear && vKnown("C04-gapfill-year-boundary") {
					continue
				}
				if tmp[y][i] == none && tmp[py][pi] != none && tmp[ny][ni] != none {
					if crossesYear {
						vCover("C04.cover_gap_at_year_end")
					}
					vAssert("C04.gap_filled_with_mean_of_adjacent_days", vNear(s.TMP[y][i], (tmp[py][pi]+tmp[ny][ni])/2, eps))
				}
				if verd[y][i] == none && verd[py][pi] != none && verd[ny][ni] != none {
					vAssert("C04.gap_filled_with_mean_of_adjacent_days", vNear(s.VERD[y][i], (verd[py][pi]+verd[ny][ni])/2, eps))
				}
				if sund[y][i] == none && sund[py][pi] != none && sund[ny][ni] != none {
					vAssert("C04.gap_filled_with_mean_of_adjacent_days", vNear(s.SUND[y][i], (sund[py][pi]+sund[ny][ni])/2, eps))
				}
			}
			// no sentinel survives in the columns the model consumes unconditionally
			vAssert("C04.no_sentinel_left", s.RADI[y][i] != none && s.REG[y][i] != none && s.SUND[y][i] != none)
		}
	}
}

func zzC04LoadYear(years, T int) {
	s := NewWeatherDataShared(years, 400)
	g := new(GlobalVarsMain)
	for y := 0; y < years; y++ {
		s.MaxYearDays[y] = T
		s.JAR[y] = vInt("jar", y)
		if y == 0 {
			vAssume(s.JAR[0] >= 1901 && s.JAR[0] <= 2090)
		}
		if y > 0 {
			vAssume(s.JAR[y] == s.JAR[y-1]+1) // consecutive years
		}
		for i := 0; i < T; i++ {
			s.TMP[y][i] = vFloat("tmp", y, i)
			s.TMI[y][i] = vFloat("tmi", y, i)
			s.TMA[y][i] = vFloat("tma", y, i)
			s.RELF[y][i] = vFloat("relf", y, i)
			s.RADI[y][i] = vFloat("radi", y, i)
			s.WIN[y][i] = vFloat("win", y, i)
			s.REG[y][i] = vFloat("reg", y, i)
		}
	}
	for i := 0; i < T; i++ {
		g.TEMP[i] = vFloat("oldtemp", i)
		g.REGEN[i] = vFloat("oldreg", i)
	}
	var old [8]float64
	for i := 0; i < T; i++ {
		old[i] = g.TEMP[i]
	}
	g.JTAG = 999
	year := vInt("year")
	vAssume(year >= 1800 && year <= 2200)
	err := LoadYear(g, &s, year)
	vCover("C04.loadyear.reach")
	found := false
	for y := 0; y < years; y++ {
		if s.JAR[y] == year {
			found = true
			vCover("C04.cover_year_found")
			vAssert("C04.loadyear_ok_for_loaded_year", err == nil)
			vAssert("C04.loadyear_sets_year_length", g.JTAG == T)
			for i := 0; i < T; i++ {
				vObserve("temp", g.TEMP[i])
				vAssert("C04.loadyear_copies_that_year", g.TEMP[i] == s.TMP[y][i] && g.RH[i] == s.RELF[y][i] && g.RAD[i] == s.RADI[y][i] && g.WIND[i] == s.WIN[y][i] && g.REGEN[i] == s.REG[y][i])
				if s.TMI[y][i] <= s.TMA[y][i]+0.5 {
					vAssert("C04.loadyear_copies_minmax", g.TMIN[i] == s.TMI[y][i] && g.TMAX[i] == s.TMA[y][i])
				}
			}
		}
	}
	if !found {
		vCover("C04.cover_year_missing")
		vAssert("C04.loadyear_error_for_missing_year", err != nil)
		for i := 0; i < T; i++ {
			vAssert("C04.loadyear_missing_year_leaves_state", g.TEMP[i] == old[i])
		}
	}
}
