package hermes

// C15: pedotransfer functions and the reduced-mineralisation threshold helper.

func init() {
	vRegister("zzC15PTF", func(a []int) { zzC15PTF(a[0]) })
	vRegister("zzC15WRed", func(a []int) { zzC15WRed(a[0]) })
	vRegister("zzC15GWRule", func(a []int) { zzC15GWRule(a[0]) })
}

// every sand/silt/clay triple with >= 5 % each, sand <= 85 %, sum 100; Corg 0..6 %
func zzC15PTF(which int) {
	clay := vFloat("clay")
	silt := vFloat("silt")
	sand := vFloat("sand")
	corg := vFloat("corg")
	vAssume(clay >= 5 && silt >= 5 && sand >= 5 && sand <= 85)
	vAssume(clay+silt+sand == 100)
	vAssume(corg >= 0 && corg <= 6)
	var fc, wp float64
	switch which {
	case 1:
		fc, wp = PTF1(corg, clay, silt)
	case 2:
		fc, wp = PTF2(corg, clay, silt)
	case 3:
		fc, wp = PTF3(corg, clay, silt)
	case 4:
		fc, wp = PTF4(corg, clay, sand)
	}
	vCover("C15.ptf.reach")
	vObserve("fc", fc)
	vObserve("wp", wp)
	vAssert("C15.ptf.wp_positive", wp > 0)
	vAssert("C15.ptf.wp_below_fc", wp < fc)
	vAssert("C15.ptf.fc_below_one", fc < 1)
}

// calcWRed with percent arguments: threshold strictly between WP and FC (as fractions)
func zzC15WRed(sandy int) {
	g := new(GlobalVarsMain)
	if sandy == 1 {
		g.BART[0] = "SL2"
	} else {
		g.BART[0] = "LT3"
	}
	wp := vFloat("wp")
	fc := vFloat("fc")
	vAssume(0 < wp && wp < fc && fc < 100)
	calcWRed(wp, fc, g)
	vCover("C15.wred.reach")
	vObserve("wred", g.WRED)
	vAssert("C15.wred.between", wp/100 < g.WRED && g.WRED < fc/100)
}

// setFieldCapacityWithGW: field capacity equals pore volume for layers entirely below the table,
// a weighted mean in the layer that contains it, untouched above; idempotent for a constant level.
func zzC15GWRule(n int) {
	g := new(GlobalVarsMain)
	g.N = n
	g.GRW = vFloat("grw")
	vAssume(g.GRW >= 0 && g.GRW <= 30)
	var w0 [21]float64
	for i := 0; i < n; i++ {
		g.W[i] = vFloat("w", i)
		g.PORGES[i] = vFloat("porges", i)
		vAssume(0 < g.W[i] && g.W[i] <= g.PORGES[i] && g.PORGES[i] < 1)
		w0[i] = g.W[i]
	}
	setFieldCapacityWithGW(g)
	vCover("C15.gw.reach")
	eps := 1e-9
	for i := 0; i < n; i++ {
		vObserve("w", g.W[i])
		if float64(i) >= g.GRW+1 {
			vAssert("C15.gw.fc_is_pore_volume_below", vNear(g.W[i], g.PORGES[i], eps))
		}
		if float64(i+1) <= g.GRW {
			vAssert("C15.gw.untouched_above", g.W[i] == w0[i])
		}
		vAssert("C15.gw.between", g.W[i] >= w0[i]-eps && g.W[i] <= g.PORGES[i]+eps)
	}
}
