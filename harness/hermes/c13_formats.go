package hermes

// C13 (reduced): the same calendar date written in the four date formats, with or without
// separators, maps to the same internal day number and day of year.

func init() {
	vRegister("zzC13DateFormats", func(a []int) { zzC13DateFormats(a[0]) })
}

func zzC13DateFormats(sep int) {
	d, d0, d1 := zzDigits2("d")
	m, m0, m1 := zzDigits2("m")
	yh, y0, y1 := zzDigits2("y")
	yl, y2, y3 := zzDigits2("z")
	y := yh*100 + yl
	cent := vInt("cent")
	vAssume(cent >= 1 && cent <= 99)
	vAssume(y >= 1901 && y <= 2099 && y >= 1900+cent && y <= 1999+cent)
	vAssume(m >= 1 && m <= 12 && d >= 1 && d <= zzDaysInMonth(m, y))
	sp := zzSep(sep)
	join := func(a0, a1, b0, b1 byte, year []byte) string {
		var bs []byte
		bs = append(bs, a0, a1)
		if sp != "" {
			bs = append(bs, sp[0])
		}
		bs = append(bs, b0, b1)
		if sp != "" {
			bs = append(bs, sp[0])
		}
		bs = append(bs, year...)
		return string(bs)
	}
	long := []byte{y0, y1, y2, y3}
	short := []byte{y2, y3}
	ztA, masA := DateConverter(cent, DateDElong)(join(d0, d1, m0, m1, long))
	ztB, masB := DateConverter(cent, DateDEshort)(join(d0, d1, m0, m1, short))
	ztC, masC := DateConverter(cent, DateENlong)(join(m0, m1, d0, d1, long))
	ztD, masD := DateConverter(cent, DateENshort)(join(m0, m1, d0, d1, short))
	vCover("C13.dates.reach")
	vObserveInt("mas", masA)
	vAssert("C13.dates.same_day_number_in_all_formats", masA == masB && masA == masC && masA == masD)
	vAssert("C13.dates.same_day_of_year_in_all_formats", ztA == ztB && ztA == ztC && ztA == ztD)
}
