package hermes

// C07: the daily N fixation of a legume (and with it the cumulative counter NFIXSUM) is never negative.
// The supply and uptake part of PhytoOut is lifted verbatim (region zzR_NSupplyUptake: mass flow and
// diffusion per rooted layer, distribution of the demand, fixation).
//   conc == 0: every state (exp / sqrt uninterpreted with their axioms)
//   conc == 1: water content 0.3 and root length density 0.5 / 5 fixed, so that the supply formulas are
//              rational in the remaining inputs and a counterexample replays natively with the real math

func init() {
	vRegister("zzC07Fixation", func(a []int) { zzC07Fixation(a[0], a[1]) })
}

func zzC07Fixation(n, conc int) {
	g := new(GlobalVarsMain)
	g.N = 20
	g.DZ = NewDualType(10, 0)
	g.DT = NewDualType(1, 0)
	g.WURZ = n
	g.GRW = 25
	g.LEGUM = vBool("legume")
	g.SCHNORR = vFloat("handed_over_yesterday") // what the previous day (possibly of another crop) left behind
	vAssume(g.SCHNORR >= 0 && g.SCHNORR <= 6)
	WRAD := make([]float64, n)
	for i := 0; i < n; i++ {
		g.C1[i] = vFloat("c1", i)
		vAssume(g.C1[i] >= 0 && g.C1[i] <= 200)
		g.TP[i] = vFloat("tp", i)
		vAssume(g.TP[i] >= 0 && g.TP[i] <= 0.5)
		g.AD[i] = 0.002
		if conc == 1 {
			g.WG[0][i] = 0.3
			g.WUDICH[i] = []float64{0.5, 5, 1}[i%3]
		} else {
			g.WG[0][i] = vFloat("wg", i)
			vAssume(g.WG[0][i] >= 0.02 && g.WG[0][i] <= 0.6)
			g.WUDICH[i] = vFloat("wudich", i)
			vAssume(g.WUDICH[i] >= 0 && g.WUDICH[i] <= 20)
		}
		WRAD[i] = 0.02 - float64(i+1)*0.001
	}
	DTGESN := vFloat("dtgesn")
	vAssume(DTGESN >= 0 && DTGESN <= 6) // clamped to [0, 6*DT] before the region
	g.NFIXSUM = vFloat("nfixsum")
	vAssume(g.NFIXSUM >= 0)
	var MASS, D, DIFF [20]float64
	var SUMPE, TRNSUM, SUMDIFF float64
	ctl := zzR_NSupplyUptake(g, 100, DTGESN, WRAD, &MASS, &D, &DIFF, &SUMPE, &TRNSUM, &SUMDIFF)
	vAssert("C07.fixation.falls_through", ctl == 0)
	vCover("C07.fixation.reach")
	vAssert("C07.fixation.daily_fixation_not_negative", g.NFIX >= 0)
	vAssert("C07.fixation.cumulative_fixation_not_negative", g.NFIXSUM >= 0)
	vAssert("C07.fixation.at_most_three_quarters_of_demand", g.NFIX <= 0.74*DTGESN+1e-12)
	// the amount handed to the transport routine (which credits it to the crop on the first sub-step) is today's
	// fixation: nothing of an earlier day or an earlier crop is credited again
	vAssert("C07.fixation.amount_handed_over_is_todays_fixation", g.SCHNORR == g.NFIX)
	if !g.LEGUM {
		vAssert("C07.fixation.none_without_legume", g.NFIX == 0)
		vCover("C07.fixation.cover_non_legume")
	}
	vObserve("nfix", g.NFIX)
	vObserve("sumpe", SUMPE)
}
