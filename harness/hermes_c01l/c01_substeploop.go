package hermes

import "math"

// C01: from the estimate of the sub-step demand to the header of the sub-step loop of the day loop of Run, lifted
// in one piece (region zzR_SubstepAll: everything between is included verbatim, the loop body is replaced by an
// iteration counter): the number of sub-steps actually executed times their length is exactly one day, whatever
// the code in between does with the count or the length.
//   sym = 1: rain, flux and soil state symbolic (exact arithmetic), demand limited to 12 sub-steps
//   sym = 0: a concrete day that demands exactly n sub-steps, executed bit-precisely (IEEE doubles), so that a
//            count derived from accumulated floating-point lengths shows

func init() {
	vRegister("zzC01SubstepLoop", func(a []int) { zzC01SubstepLoop(a[0], a[1]) })
}

func zzC01SubstepLoop(n, sym int) {
	g := NewGlobalVarsMain()
	g.N = 2
	g.DZ = NewDualType(10, 0)
	g.DT = NewDualType(1, 0)
	g.TAG = NewDualType(3, 1)
	g.AUTOMAN = false
	if sym == 1 {
		g.FLUSS0 = vFloat("fluss0")
		vAssume(-5 <= g.FLUSS0 && g.FLUSS0 <= 50)
		g.REGEN[3] = vFloat("regen")
		vAssume(0 <= g.REGEN[3] && g.REGEN[3] <= 50)
		for i := 0; i < 2; i++ {
			g.W[i] = vFloat("w", i)
			vAssume(0.02 <= g.W[i] && g.W[i] < 1)
			g.WG[0][i] = vFloat("wg", i)
			vAssume(0.001 <= g.WG[0][i] && g.WG[0][i] < 1)
		}
		// demand limited to 12 sub-steps (the stated bound of this instance)
		fsc0 := (g.W[0] - g.WG[0][0]) * 10
		fsc1 := fsc0 + (g.W[1]-g.WG[0][1])*10
		vAssume(g.REGEN[3]-fsc0 <= 12*g.W[0]*10/3 && g.REGEN[3]-fsc1 <= 12*g.W[1]*10/3)
	} else {
		// rain of n - 1/2 cm on a soil at field capacity 0.3: demand n - 1/2, i.e. n sub-steps
		g.FLUSS0 = 0.1
		g.REGEN[3] = float64(n) - 0.5
		for i := 0; i < 2; i++ {
			g.W[i], g.WG[0][i] = 0.3, 0.3
		}
	}
	var FSCSUM [20]float64
	var WDT float64
	zzHeaderCount, zzHeaderLimit = 0, 60
	_, ctl := zzR_SubstepAll(&WDT, &FSCSUM, &g, 40000)
	vCover("C01.substeploop.reach")
	vAssert("C01.substeploop.falls_through", ctl == 0)
	k := zzHeaderCount
	vAssert("C01.substeploop.loop_ends", k <= zzHeaderLimit)
	vAssert("C01.substeploop.at_least_one_substep", k >= 1 && WDT > 0 && WDT <= 1)
	if sym == 1 {
		vAssert("C01.substeploop.executed_count_times_length_is_one_day", vNear(float64(k)*WDT, 1, 1e-12))
		if k > 8 {
			vCover("C01.substeploop.cover_rain_refinement")
		}
	} else {
		vAssert("C01.substeploop.executed_count_is_the_demanded_count", k == n)
		vAssert("C01.substeploop.length_is_reciprocal_of_count", WDT == 1/float64(n) || (n == 1 && WDT == 1))
		vAssert("C01.substeploop.count_times_length_is_one_day_up_to_rounding", math.Abs(float64(k)*WDT-1) < 1e-12)
	}
	vObserveInt("count", k)
	vObserve("wdt", WDT)
}
