package hermes

// C10: same-day shift of fertiliser / tillage dates and the fertiliser split (regions lifted from Input / dueng).

import "strconv"

func init() {
	vRegister("zzC10ShiftFert", func(a []int) { zzC10ShiftFert(a[0]) })
	vRegister("zzC10ShiftTill", func(a []int) { zzC10ShiftTill(a[0]) })
	vRegister("zzC10Dueng", func(a []int) { zzC10Dueng() })
}

// k fertiliser events in slots 1..k after slot 0 (residues of the preceding crop, dated on the start day)
func zzC10ShiftFert(k int) {
	g := new(GlobalVarsMain)
	NDu := k + 1
	var orig [8]int
	for i := 0; i <= k; i++ {
		g.ZTDG[i] = vInt("ztdg", i)
		vAssume(g.ZTDG[i] >= 1 && g.ZTDG[i] <= 80000)
		if i > 0 {
			vAssume(g.ZTDG[i] >= g.ZTDG[i-1]) // file order: ascending dates
		}
		if i > 1 {
			vAssume(g.ZTDG[i] > g.ZTDG[i-2]) // at most two events on one day
		}
		orig[i] = g.ZTDG[i]
	}
	pairs := 0
	for i := 1; i <= k; i++ {
		if orig[i] == orig[i-1] {
			pairs++
		}
	}
	zzR_ShiftFert(g, NDu)
	vCover("C10.shift.reach")
	for i := 0; i <= k; i++ {
		vObserveInt("ztdg", g.ZTDG[i])
		if i > 0 {
			// the cursor needs strictly ascending dates: otherwise an event and all later ones are lost
			vAssert("C10.shift.fert_dates_strictly_ascending", g.ZTDG[i] > g.ZTDG[i-1])
		}
		vAssert("C10.shift.fert_never_before_scheduled_date", g.ZTDG[i] >= orig[i])
		if pairs <= 1 {
			vAssert("C10.shift.fert_moved_by_at_most_one_day", g.ZTDG[i] <= orig[i]+1)
		}
	}
	vAssert("C10.shift.first_slot_untouched", g.ZTDG[0] == orig[0])
}

func zzC10ShiftTill(k int) {
	g := new(GlobalVarsMain)
	NRTIL := k
	var orig [8]int
	for i := 1; i <= k; i++ {
		g.EINTE[i] = vInt("einte", i)
		vAssume(g.EINTE[i] >= 1 && g.EINTE[i] <= 80000)
		if i > 1 {
			vAssume(g.EINTE[i] >= g.EINTE[i-1])
		}
		if i > 2 {
			vAssume(g.EINTE[i] > g.EINTE[i-2])
		}
		orig[i] = g.EINTE[i]
	}
	pairs := 0
	for i := 2; i <= k; i++ {
		if orig[i] == orig[i-1] {
			pairs++
		}
	}
	zzR_ShiftTill(g, NRTIL)
	vCover("C10.shifttill.reach")
	for i := 1; i <= k; i++ {
		if i > 1 {
			vAssert("C10.shift.tillage_dates_strictly_ascending", g.EINTE[i] > g.EINTE[i-1])
		}
		vAssert("C10.shift.tillage_never_before_scheduled_date", g.EINTE[i] >= orig[i])
		if pairs <= 1 {
			vAssert("C10.shift.tillage_moved_by_at_most_one_day", g.EINTE[i] <= orig[i]+1)
		}
	}
	vAssert("C10.shift.slot_after_last_tillage_untouched", g.EINTE[k+1] == 0)
}

// the fertiliser table row split (text fields of the row become symbolic numbers)
func zzC10Dueng() {
	g := new(GlobalVarsMain)
	l := new(InputSharedVars)
	i := 1
	ntot, fdir, ffst, fslo, fnh4, loss := vFloat("val_ntot"), vFloat("val_ndir"), vFloat("val_nfst"), vFloat("val_nslo"), vFloat("val_nh4"), vFloat("val_loss")
	vAssume(ntot >= 0 && ntot <= 1 && fdir >= 0 && fdir <= 1 && ffst >= 0 && fslo >= 0 && ffst+fslo <= 1 && fnh4 >= 0 && fnh4 <= 1 && loss >= 0 && loss <= 1)
	token := []string{"KAS", "ntot", "ndir", "nfst", "nslo", "nh4", "loss"}
	if !vSymbolic() {
		token = []string{"KAS", strconv.FormatFloat(ntot, 'g', -1, 64), strconv.FormatFloat(fdir, 'g', -1, 64), strconv.FormatFloat(ffst, 'g', -1, 64),
			strconv.FormatFloat(fslo, 'g', -1, 64), strconv.FormatFloat(fnh4, 'g', -1, 64), strconv.FormatFloat(loss, 'g', -1, 64)}
	}
	l.DGMG[i] = vFloat("dgmg") // applied quantity times the global fertilisation factor
	vAssume(l.DGMG[i] >= 0 && l.DGMG[i] <= 1000)
	zzR_DuengRow(i, g, l, "FERTILIZ.TXT", "row", token)
	vCover("C10.dueng.reach")
	total := l.DGMG[i] * ntot
	eps := 1e-7
	vObserve("ndir", g.NDIR[i])
	vObserve("nh4n", g.NH4N[i])
	vAssert("C10.dueng.direct_n", vNear(g.NDIR[i], total*fdir*(1-fnh4*loss), eps))
	vAssert("C10.dueng.ammonium_n", vNear(g.NH4N[i], total*fdir*fnh4*(1-loss), eps))
	vAssert("C10.dueng.fast_and_slow_organic_n", vNear(g.NSAS[i], (total-g.NDIR[i])*ffst, eps) && vNear(g.NLAS[i], (total-g.NDIR[i])*fslo, eps))
	vAssert("C07.dueng.parts_nonneg_and_within_total", g.NDIR[i] >= -eps && g.NH4N[i] >= -eps && g.NSAS[i] >= -eps && g.NLAS[i] >= -eps && g.NDIR[i]+g.NSAS[i]+g.NLAS[i] <= total+eps)
}
