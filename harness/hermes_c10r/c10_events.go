package hermes

// C10: management event cursors (regions lifted from Nitro and from the day loop of Run).

func init() {
	vRegister("zzC10Fert", func(a []int) { zzC10Fert(a[0], a[1]) })
	vRegister("zzC10Irrigation", func(a []int) { zzC10Irrigation(a[0]) })
	vRegister("zzC10Tillage", func(a []int) { zzC10Tillage(a[0], a[1]) })
}

func zzNoEvent(name string, a, b float64) error { return nil }

// one day / sub-step of the fertiliser cursor: k events, cursor at c
func zzC10Fert(k, c int) {
	g := new(GlobalVarsMain)
	ln := new(NitroBBBSharedVars)
	g.NDG = NewDualType(c, 1)
	g.AUTOFERT = false
	for i := 0; i < k; i++ {
		g.ZTDG[i] = vInt("ztdg", i)
		vAssume(g.ZTDG[i] >= 1 && g.ZTDG[i] <= 80000)
		if i > 0 {
			vAssume(g.ZTDG[i] > g.ZTDG[i-1]) // strictly ascending after the same-day shift
		}
		g.NSAS[i] = vFloat("nsas", i)
		g.NLAS[i] = vFloat("nlas", i)
		g.NDIR[i] = vFloat("ndir", i)
		g.NH4N[i] = vFloat("nh4n", i)
		g.DGART[i] = "KAS"
	}
	g.NFOS[0] = vFloat("nfos")
	g.NAOS[0] = vFloat("naos")
	g.DSUMM = vFloat("dsumm")
	g.NH4Sum = vFloat("nh4sum")
	g.NFERTSIM = vFloat("nfertsim")
	zeit := vInt("zeit")
	subd := vInt("subd")
	vAssume(subd >= 1 && subd <= 8)
	// invariant: the event under the cursor has not been missed yet
	vAssume(zeit >= 1 && zeit <= g.ZTDG[c]+1)
	nfos0, naos0, dsumm0, nh40 := g.NFOS[0], g.NAOS[0], g.DSUMM, g.NH4Sum
	var runErr error
	finished, err, ctl := zzR_FertCursor(subd, zeit, g, ln, false, &runErr, zzNoEvent)
	vCover("C10.fert.reach")
	vAssert("C10.fert.falls_through", ctl == 0 && err == nil && !finished)
	due := zeit == g.ZTDG[c]+1 && subd == 1
	eps := 1e-9
	if due {
		vCover("C10.fert.cover_due")
		vAssert("C10.fert.applied_in_full", vNear(g.NFOS[0], nfos0+g.NSAS[c], eps) && vNear(g.NAOS[0], naos0+g.NLAS[c], eps) && vNear(g.DSUMM, dsumm0+g.NDIR[c], eps) && vNear(g.NH4Sum, nh40+g.NH4N[c], eps))
		vAssert("C10.fert.cursor_advances_by_one", g.NDG.Index == c+1)
		// next event (strictly later) cannot be missed tomorrow
		if c+1 < k {
			vAssert("C10.fert.invariant_preserved", zeit+1 <= g.ZTDG[c+1]+1)
		}
	} else {
		vAssert("C10.fert.nothing_applied_otherwise", g.NFOS[0] == nfos0 && g.NAOS[0] == naos0 && g.DSUMM == dsumm0 && g.NH4Sum == nh40 && g.NDG.Index == c)
		if subd == 1 {
			vAssert("C10.fert.invariant_preserved", zeit+1 <= g.ZTDG[c]+1)
		}
	}
	vAssert("C10.fert.cursor_counter_in_step", g.NDG.Num == float64(g.NDG.Index+1))
}

// irrigation: applied on its date, water into that day's rain, N into the top layer, cursor + 1
func zzC10Irrigation(k int) {
	g := NewGlobalVarsMain()
	g.DT = NewDualType(1, 0)
	g.TAG = NewDualType(4, 1)
	g.Kalender = KalenderConverter(DateDElong, ".")
	c := vInt("cursor") // NBR-1
	vAssume(c >= 0 && c < k)
	g.NBR = c + 1
	for i := 0; i < k; i++ {
		g.ZTBR[i] = vInt("ztbr", i)
		vAssume(g.ZTBR[i] >= 1 && g.ZTBR[i] <= 80000)
		if i > 0 {
			vAssume(g.ZTBR[i] > g.ZTBR[i-1])
		}
		g.BREG[i] = vFloat("breg", i)
		g.BRKZ[i] = vFloat("brkz", i)
		vAssume(g.BREG[i] >= 0 && g.BRKZ[i] >= 0)
	}
	g.REGEN[4] = vFloat("regen")
	g.C1[0] = vFloat("c1")
	ZEIT := vInt("zeit")
	vAssume(ZEIT >= 1 && ZEIT <= g.ZTBR[0]+100000)
	regen0, c10 := g.REGEN[4], g.C1[0]
	amount, conc := zzPick(g.BREG, c, k), zzPick(g.BRKZ, c, k)
	date := zzPickI(g.ZTBR, c, k)
	_, ctl := zzR_Irrigation(&g, ZEIT)
	vCover("C10.irr.reach")
	vAssert("C10.irr.falls_through", ctl == 0)
	eps := 1e-9
	if ZEIT == date {
		vCover("C10.irr.cover_due")
		vAssert("C10.irr.water_enters_todays_rain", vNear(g.REGEN[4], regen0+amount/10, eps))
		vAssert("C10.irr.nitrogen_enters_top_layer", vNear(g.C1[0], c10+conc*amount*0.01, eps))
		vAssert("C10.irr.cursor_advances_by_one", g.NBR == c+2)
	} else {
		vAssert("C10.irr.nothing_applied_otherwise", g.REGEN[4] == regen0 && g.C1[0] == c10 && g.NBR == c+1)
	}
}

func zzPick(s []float64, c, k int) float64 {
	r := 0.0
	for i := 0; i < k; i++ {
		if i == c {
			r = s[i]
		}
	}
	return r
}
func zzPickI(s []int, c, k int) int {
	r := 0
	for i := 0; i < k; i++ {
		if i == c {
			r = s[i]
		}
	}
	return r
}

// tillage: mixing over the tilled depth preserves the pool sums; cursor + 1
func zzC10Tillage(n, mix int) {
	g := new(GlobalVarsMain)
	g.N = n
	g.DZ = NewDualType(10, 0)
	g.NTIL = NewDualType(0, 1)
	g.AKF = NewDualType(0, 1)
	g.Kalender = KalenderConverter(DateDElong, ".") // used natively by the event record (stubbed symbolically)
	g.EINTE[1] = vInt("einte")
	vAssume(g.EINTE[1] >= 1 && g.EINTE[1] <= 80000)
	depth := vFloat("depth") // cm
	vAssume(depth > 0 && depth <= float64(10*n))
	g.EINT[0] = depth
	g.TILART[0] = mix
	// depth of the mineralisation zone (a multiple of the layer thickness, independent of the tillage depth)
	izm := vInt("izm_layers")
	vAssume(izm >= 1 && izm <= n)
	g.IZM = 10 * izm
	var sums0 [5]float64
	for i := 0; i < n; i++ {
		g.NFOS[i] = vFloat("nfos", i)
		g.NAOS[i] = vFloat("naos", i)
		g.MINFOS[i] = vFloat("minfos", i)
		g.MINAOS[i] = vFloat("minaos", i)
		g.C1[i] = vFloat("c1", i)
		vAssume(g.NFOS[i] >= 0 && g.NAOS[i] >= 0 && g.MINFOS[i] >= 0 && g.MINAOS[i] >= 0 && g.C1[i] >= 0)
		sums0[0] += g.NFOS[i]
		sums0[1] += g.NAOS[i]
		sums0[2] += g.MINFOS[i]
		sums0[3] += g.MINAOS[i]
		sums0[4] += g.C1[i]
	}
	zeit := vInt("zeit")
	subd := 1
	vAssume(zeit == g.EINTE[1]+1)
	var runErr error
	finished, err, ctl := zzR_TillageBlock(subd, zeit, g, false, &runErr)
	vCover("C10.till.reach")
	vAssert("C10.till.falls_through", ctl == 0 && err == nil && !finished)
	var sums1 [5]float64
	for i := 0; i < n; i++ {
		sums1[0] += g.NFOS[i]
		sums1[1] += g.NAOS[i]
		sums1[2] += g.MINFOS[i]
		sums1[3] += g.MINAOS[i]
		sums1[4] += g.C1[i]
		vObserve("nfos", g.NFOS[i])
	}
	eps := 1e-7
	vAssert("C07.tillage_preserves_pool_sums", vNear(sums1[0], sums0[0], eps) && vNear(sums1[1], sums0[1], eps) && vNear(sums1[2], sums0[2], eps) && vNear(sums1[3], sums0[3], eps))
	vAssert("C07.tillage_preserves_mineral_n", vNear(sums1[4], sums0[4], eps))
	vAssert("C10.till.cursor_advances_by_one", g.NTIL.Index == 1)
}

func init() {
	vRegister("zzC16AutoFert", func(a []int) { zzC16AutoFert(a[0]) })
}

// every automatically computed N application (all six sites of the AUTOFERT branch) is non-negative
func zzAssertAmount(name string, amount, nh4 float64) error {
	vAssert("C16.autofert.amount_nonneg", amount >= 0)
	vCover("C16.autofert.cover_application")
	return nil
}

func zzC16AutoFert(wurz int) {
	g := new(GlobalVarsMain)
	ln := new(NitroBBBSharedVars)
	g.AUTOFERT = true
	g.AKF = NewDualType(1, 1)
	g.TAG = NewDualType(0, 1)
	doy := vInt("doy")
	vAssume(doy >= 6 && doy <= 360)
	g.TAG.SetByIndex(doy - 1)
	g.INTWICK = NewDualType(0, 1)
	stage := vInt("stage")
	vAssume(stage >= 1 && stage <= 9)
	g.INTWICK.SetByIndex(stage - 1)
	g.Kalender = func(int) string { return "date" }
	g.WURZ = wurz
	zeit := vInt("zeit")
	vAssume(zeit >= 10 && zeit <= 80000)
	g.SAAT[1] = vInt("saat")
	vAssume(g.SAAT[1] >= 1 && g.SAAT[1] <= zeit)
	g.ODU[1] = 0
	g.ODU[0] = 0
	g.ORGTIME[0] = "S"
	for k := 0; k < 3; k++ {
		g.C1[k] = vFloat("c1", k)
		vAssume(g.C1[k] >= 0)
	}
	g.NDOY1[1], g.NDOY2[1], g.NDOY3[1] = vFloat("ndoy1"), vFloat("ndoy2"), vFloat("ndoy3")
	vAssume(g.NDOY1[1] >= 0 && g.NDOY2[1] >= 0 && g.NDOY3[1] >= 0 && g.NDOY1[1] <= 400 && g.NDOY2[1] <= 400 && g.NDOY3[1] <= 400)
	g.NDEM1[1], g.NDEM2[1], g.NDEM3[1] = vFloat("ndem1"), vFloat("ndem2"), vFloat("ndem3")
	vAssume(g.NDEM1[1] >= 0 && g.NDEM2[1] >= 0 && g.NDEM3[1] >= 0)
	// the day-of-year trigger looks five days back and one day ahead
	for d := 0; d < 7; d++ {
		_ = d
	}
	g.DSUMM = vFloat("dsumm")
	g.NFERTSIM = vFloat("nfertsim")
	dsumm0, nf0 := g.DSUMM, g.NFERTSIM
	var runErr error
	_, err, ctl := zzR_FertCursor(1, zeit, g, ln, false, &runErr, zzAssertAmount)
	vCover("C16.autofert.reach")
	vAssert("C16.autofert.falls_through", ctl == 0 && err == nil)
	vAssert("C16.autofert.fertiliser_sums_never_decrease", g.DSUMM >= dsumm0 && g.NFERTSIM >= nf0)
}
