package hermes

// C05 / C11: the header of the day loop of Run (region zzR_DayLoopHeader, lifted with header_of: initialisation,
// condition and step verbatim, the body replaced by an iteration counter): the loop makes exactly one iteration
// per calendar day from the simulation start to the end date inclusive, none when the end date lies before the
// start, and it ends - whatever the end date is, the loop does not run past it.

func init() {
	vRegister("zzDayLoopHeader", func(a []int) { zzDayLoopHeader() })
}

func zzDayLoopHeader() {
	g := NewGlobalVarsMain()
	g.DT = NewDualType(1, 0)
	g.BEGINN = vInt("beginn")
	days := vInt("days") // end date relative to the start, also before it
	vAssume(g.BEGINN >= 1000 && g.BEGINN <= 70000 && days >= -3 && days <= 4)
	g.ENDE = g.BEGINN + days
	zzHeaderCount, zzHeaderLimit = 0, 8
	err, ctl := zzR_DayLoopHeader(&g)
	vCover("C05.dayloop.reach")
	vAssert("C05.dayloop.falls_through", err == nil && ctl == 0)
	want := days + 1
	if want < 0 {
		want = 0
	}
	vAssert("C11.dayloop.ends_at_the_end_date", zzHeaderCount <= zzHeaderLimit)
	vAssert("C05.dayloop.one_iteration_per_day_from_start_to_end_inclusive", zzHeaderCount == want)
	if days < 0 {
		vCover("C05.dayloop.cover_end_before_start")
	}
	vObserveInt("iterations", zzHeaderCount)
}
