package hermes

// C03: results of a run do not depend on what other runs of the process did before
// (two-run mode of the executor, engine/sym/tworun.go). This harness is the part of a run
// that translates crop abbreviations: names that are not built in get per-run numbers.

func init() {
	vRegister("zzC03CropLookup", func(a []int) { zzC03CropLookup(a[0]) })
}

// n crop abbreviations of three capital letters, arbitrary (built in or not)
func zzC03CropLookup(n int) {
	g := &GlobalVarsMain{CropTypeLookup: map[string]CropType{}}
	for k := 0; k < n; k++ {
		b0, b1, b2 := vByte("crop", k, 0), vByte("crop", k, 1), vByte("crop", k, 2)
		vAssume(b0 >= 'A' && b0 <= 'Z' && b1 >= 'A' && b1 <= 'Z' && b2 >= 'A' && b2 <= 'Z')
		name := string([]byte{b0, b1, b2})
		c := g.ToCropType(name)
		back := g.CropTypeToString(c, false)
		vObserveInt("type", int(c))
		vObserveStr("name", back)
		vCover("C03.lookup.reach")
		vAssert("C03.lookup.number_translates_back_to_the_name_of_this_run", back == name)
	}
}
