package hermes

// C03 (reduced): the session's shared file cache. One Get from an arbitrary cache state:
// the content returned is the content of exactly the requested path, the cache invariant
// (every cached entry holds its own file's content) is kept, the cache is only touched
// while the mutex is held, and the mutex is released afterwards.

import "os"

func init() {
	vRegister("zzC03PoolGet", func(a []int) { zzC03PoolGet(a[0], a[1]) })
}

var zzPaths = []string{"proj/soil_A.txt", "proj/SOIL_A.txt", "proj/soil_B.txt", "proj/../proj/soil_A.txt"}

// native counterpart of the symbolic file contents: files are not read natively
func zzContent(path string) byte { return vByte("file_" + path) }

// cached: index of a path already in the cache (-1 = empty cache); req: index of the requested path
func zzC03PoolGet(cached, req int) {
	fp := new(FilePool)
	if cached >= 0 {
		fp.list = map[string][]byte{zzPaths[cached]: {zzContent(zzPaths[cached])}}
	}
	if !vSymbolic() {
		// natively the file must exist: create it with the model's content
		os.MkdirAll("proj", 0755)
		os.WriteFile(zzPaths[req], []byte{zzContent(zzPaths[req])}, 0644)
		defer os.RemoveAll("proj")
	}
	fd := &FileDescriptior{FilePath: zzPaths[req], FileDescription: "test", UseFilePool: true}
	data := fp.Get(fd)
	vCover("C03.pool.reach")
	vAssert("C03.pool.returns_content_of_requested_path", len(data) == 1 && data[0] == zzContent(zzPaths[req]))
	// invariant kept: every entry holds its own path's content
	if cached >= 0 {
		d, ok := fp.list[zzPaths[cached]]
		vAssert("C03.pool.cached_entry_unchanged", ok && len(d) == 1 && d[0] == zzContent(zzPaths[cached]))
	}
	d2, ok2 := fp.list[zzPaths[req]]
	vAssert("C03.pool.requested_entry_cached", ok2 && len(d2) == 1 && d2[0] == zzContent(zzPaths[req]))
	// a second request is served from the cache with the same content
	again := fp.Get(fd) // also shows that the mutex was released by the first call (no deadlock abort)
	vAssert("C03.pool.repeatable", len(again) == 1 && again[0] == data[0])
}
