package hermes

// C16: automatic irrigation and automatic sowing (regions lifted from the day loop of Run).

func init() {
	vRegister("zzC16AutoIrri", func(a []int) { zzC16AutoIrri(a[0]) })
	vRegister("zzC16AutoSow", func(a []int) { zzC16AutoSow(a[0]) })
}

func zzC16AutoIrri(depth int) {
	g := NewGlobalVarsMain()
	g.DZ = NewDualType(10, 0)
	g.TAG = NewDualType(10, 1)
	g.AKF = NewDualType(1, 1)
	g.INTWICK = NewDualType(0, 1)
	g.AUTOIRRI = true
	g.N = 3
	g.WURZMAX = depth
	g.SAAT[1] = vInt("saat")
	vAssume(g.SAAT[1] >= 0 && g.SAAT[1] <= 80000)
	stage := vInt("stage") // development stage index
	vAssume(stage >= 0 && stage <= 10)
	g.INTWICK.SetByIndex(stage - 1)
	g.IRRST1[1] = vFloat("irrst1")
	g.IRRST2[1] = vFloat("irrst2")
	g.IRRDEP[1] = vFloat("irrdep")
	vAssume(g.IRRDEP[1] >= 1 && g.IRRDEP[1] <= 3)
	g.IRRLOW[1] = vFloat("irrlow")
	g.IRRMAX[1] = vFloat("irrmax")
	vAssume(g.IRRMAX[1] >= 0 && g.IRRMAX[1] <= 100)
	for i := 0; i < 3; i++ {
		g.WMIN[i] = vFloat("wmin", i)
		g.W[i] = vFloat("w", i)
		vAssume(0 < g.WMIN[i] && g.WMIN[i] < g.W[i] && g.W[i] < 1)
		g.WG[0][i] = vFloat("wg", i)
		vAssume(g.WMIN[i]/3 <= g.WG[0][i] && g.WG[0][i] < 1)
	}
	g.REGEN[10] = vFloat("rain0")
	g.REGEN[11] = vFloat("rain1")
	g.REGEN[12] = vFloat("rain2")
	vAssume(g.REGEN[10] >= 0 && g.REGEN[11] >= 0 && g.REGEN[12] >= 0)
	g.NBR = 1
	g.IRRISIM = vFloat("irrisim")
	ZEIT := vInt("zeit")
	vAssume(ZEIT >= 1 && ZEIT <= 80000)
	irr0 := g.IRRISIM
	g.ZTBR[0] = 0
	g.BREG[0] = 0
	cfgSaat, cfgSt1, cfgSt2, cfgMax, cfgStage := g.SAAT[1], g.IRRST1[1], g.IRRST2[1], g.IRRMAX[1], g.INTWICK.Num // configuration and crop state before the block
	_, ctl := zzR_AutoIrri(&g, ZEIT)
	vCover("C16.irri.reach")
	vAssert("C16.irri.falls_through", ctl == 0)
	vObserve("breg", g.BREG[0])
	scheduled := g.ZTBR[0] == ZEIT
	if scheduled {
		vCover("C16.irri.cover_triggered")
		vAssert("C16.irri.only_after_sowing", cfgSaat > 0 && ZEIT > cfgSaat)
		vAssert("C16.irri.only_between_configured_stages", cfgStage >= cfgSt1 && cfgStage < cfgSt2+1)
		vAssert("C16.irri.amount_within_daily_maximum", g.BREG[0] >= 0 && g.BREG[0] <= cfgMax+1e-9)
		vAssert("C16.irri.sum_counter", vNear(g.IRRISIM-irr0, g.BREG[0], 1e-9))
	} else {
		vAssert("C16.irri.nothing_otherwise", g.BREG[0] == 0 && g.IRRISIM == irr0)
	}
	vAssert("C16.irri.configuration_not_changed", g.SAAT[1] == cfgSaat && g.IRRST1[1] == cfgSt1 && g.IRRST2[1] == cfgSt2 && g.IRRMAX[1] == cfgMax && g.INTWICK.Num == cfgStage)
}

func zzC16AutoSow(win int) {
	g := NewGlobalVarsMain()
	g.DZ = NewDualType(10, 0)
	g.TAG = NewDualType(20, 1)
	g.AKF = NewDualType(1, 1)
	g.AUTOMAN = true
	g.SAAT1[1] = vInt("saat1")
	g.SAAT2[1] = vInt("saat2")
	vAssume(g.SAAT1[1] >= 100 && g.SAAT1[1] <= g.SAAT2[1] && g.SAAT2[1] <= 80000)
	g.ERNTE[0] = vInt("prevharvest")
	g.ERNTE2[0] = vInt("prevlatest")
	// rotations whose sowing window opens after the latest harvest date of the preceding crop
	vAssume(g.ERNTE[0] >= 1 && g.ERNTE[0] <= g.ERNTE2[0] && g.ERNTE2[0] < g.SAAT1[1])
	g.SAAT[1] = vInt("saat")
	ZEIT := vInt("zeit")
	vAssume(ZEIT >= 1 && ZEIT <= 80000)
	// invariant of the day loop: not sown yet => the window has not closed
	vAssume(g.SAAT[1] == 0 && ZEIT <= g.SAAT2[1] || g.SAAT[1] >= g.SAAT1[1] && g.SAAT[1] <= g.SAAT2[1] && g.SAAT[1] <= ZEIT)
	g.TSLWINDOW[1] = float64(win)
	g.TSLMIN[1] = vFloat("tslmin")
	g.TSLMAX[1] = vFloat("tslmax")
	g.TJAHR[1] = vFloat("tjahr")
	g.TJAHRSUM = vFloat("tjahrsum")
	g.MAXMOI[1] = vFloat("maxmoi")
	g.MINMOI[1] = vFloat("minmoi")
	for i := 0; i <= 21; i++ {
		g.TEMP[i] = vFloat("temp", i)
		vAssume(g.TEMP[i] >= -60 && g.TEMP[i] <= 60)
	}
	g.REGEN[20] = vFloat("rain0")
	g.REGEN[19] = vFloat("rainy")
	g.WG[0][0] = vFloat("wg")
	g.WMIN[0] = vFloat("wmin")
	g.WNOR[0] = vFloat("wnor")
	vAssume(0 < g.WMIN[0] && g.WMIN[0] < g.WNOR[0] && g.WNOR[0] < 1 && g.WG[0][0] > 0 && g.WG[0][0] < 1)
	saat0 := g.SAAT[1]
	win1, win2 := g.SAAT1[1], g.SAAT2[1] // the configured window (the block must not move it)
	_, ctl := zzR_AutoSow(&g, ZEIT)
	vCover("C16.sow.reach")
	vAssert("C16.sow.falls_through", ctl == 0)
	vObserveInt("saat", g.SAAT[1])
	if saat0 != 0 {
		vAssert("C16.sow.sown_once", g.SAAT[1] == saat0)
	} else if g.SAAT[1] != 0 {
		vCover("C16.sow.cover_sown_today")
		vAssert("C16.sow.sown_today_inside_window", g.SAAT[1] == ZEIT && ZEIT >= win1 && ZEIT <= win2)
		vAssert("C16.sow.after_previous_harvest", g.SAAT[1] > g.ERNTE[0])
	}
	// forced sowing at the end of the window; invariant for tomorrow
	if ZEIT == win2 {
		vCover("C16.sow.cover_window_end")
		vAssert("C16.sow.forced_at_window_end", g.SAAT[1] != 0)
	}
	vAssert("C16.sow.configured_window_not_moved", g.SAAT1[1] == win1 && g.SAAT2[1] == win2)
	vAssert("C16.sow.invariant_preserved", g.SAAT[1] == 0 && ZEIT+1 <= win2 || g.SAAT[1] >= win1 && g.SAAT[1] <= win2)
}
