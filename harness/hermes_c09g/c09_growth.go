package hermes

// C09: the growth part of PhytoOut (region zzR_Growth: N stress factor, partitioning of the assimilates to the
// organs, dying of organs, leaf area, above-ground and root mass, assimilate pool; lifted verbatim) executed once
// from an arbitrary valid crop state: the stress factor stays in [0,1], no organ mass, the leaf area index, the
// above-ground mass, the root mass and the assimilate pool ever become negative, nothing is divided by zero.
//   nrkom: number of organs (3..5), stage: development stage index (1..), last: 1 = stage is the last one,
//   kind: 0 cereal, 1 beet (ZR: yield organ counted with the shoot), 2 permanent crop in a late stage

func init() {
	vRegister("zzC09Growth", func(a []int) { zzC09Growth(a[0], a[1], a[2], a[3]) })
	vRegister("zzC09NContentFn", func(a []int) { zzC09NContentFn(a[0]) })
	vRegister("zzC09NConc", func(a []int) { zzC09NConc(a[0]) })
}

func zzC09Growth(nrkom, stage, last, kind int) {
	g := new(GlobalVarsMain)
	l := new(CropSharedVars)
	g.N = 20
	g.DZ = NewDualType(10, 0)
	g.DT = NewDualType(1, 0)
	g.AKF = NewDualType(1, 0)
	g.NRKOM = nrkom
	g.INTWICK = NewDualType(-1, 1)
	g.INTWICK.SetByIndex(stage)
	if last == 1 {
		l.NRENTW = stage + 1
	} else {
		l.NRENTW = stage + 2
	}
	switch kind {
	case 1:
		g.FRUCHT[g.AKF.Index] = ZR
	case 2:
		g.FRUCHT[g.AKF.Index] = GR
		g.DAUERKULT = true
	default:
		g.FRUCHT[g.AKF.Index] = WW
	}
	for k := 2; k <= nrkom; k++ {
		if kind == 1 && k == 4 {
			continue // beet: organ 4 is the storage root
		}
		l.AboveGroundOrgans = append(l.AboveGroundOrgans, k)
	}
	ngefkt01 := vInt("ngefkt01")
	vAssume(ngefkt01 == 0 || ngefkt01 == 1)
	g.NGEFKT = 1 + ngefkt01
	GTW := vFloat("gtw")
	MAINT := vFloat("maint")
	vAssume(GTW >= 0 && GTW <= 2000 && MAINT >= 0 && MAINT <= 500)
	g.SUM[stage] = vFloat("sum")
	g.TSUM[stage] = vFloat("tsum")
	vAssume(g.TSUM[stage] >= 1 && g.TSUM[stage] <= 3000 && g.SUM[stage] >= 0 && g.SUM[stage] <= 4000)
	for s := stage - 1; s <= stage; s++ {
		g.LAIFKT[s] = vFloat("laifkt", s)
		vAssume(g.LAIFKT[s] >= 0 && g.LAIFKT[s] <= 0.01)
		for i := 0; i < nrkom; i++ {
			g.PRO[s][i] = vFloat("pro", s, i)
			g.DEAD[s][i] = vFloat("dead", s, i)
			vAssume(g.PRO[s][i] >= 0 && g.PRO[s][i] <= 1 && g.DEAD[s][i] >= 0 && g.DEAD[s][i] <= 1)
		}
	}
	g.LAIFKT[0] = vFloat("laifkt", 0)
	vAssume(g.LAIFKT[0] >= 0 && g.LAIFKT[0] <= 0.01)
	aboveN := 0.0
	for i := 0; i < nrkom; i++ {
		g.WORG[i] = vFloat("worg", i)
		g.WDORG[i] = vFloat("wdorg", i)
		l.MANT[i] = vFloat("mant", i)
		vAssume(g.WORG[i] >= 0 && g.WORG[i] <= 40000 && g.WDORG[i] >= 0 && g.WDORG[i] <= g.WORG[i])
		vAssume(l.MANT[i] >= 0 && l.MANT[i] <= 1)
		if i == 1 || i == 2 {
			aboveN += g.WORG[i]
		}
	}
	g.LAI = vFloat("lai")
	vAssume(g.LAI >= 0 && g.LAI <= 15)
	g.GEHOB = vFloat("gehob")
	g.GEHMIN = vFloat("gehmin")
	g.GEHMAX = vFloat("gehmax")
	vAssume(g.GEHOB >= 0 && g.GEHOB <= 0.1 && g.GEHMIN > 0 && g.GEHMIN <= g.GEHMAX && g.GEHMAX <= 0.1)
	g.REDUK = vFloat("reduk_old")
	g.TRREL = vFloat("trrel")
	g.ETREL = vFloat("etrel")
	vAssume(g.REDUK >= 0 && g.REDUK <= 1 && g.TRREL >= 0 && g.TRREL <= 1 && g.ETREL >= 0 && g.ETREL <= 1)
	g.ASPOO = 0 // reset before the region (the pool was added to GTW)
	g.PESUM = vFloat("pesum")
	// the crop's N content includes the N of leaves and stems at the shoot's concentration
	vAssume(g.PESUM >= g.GEHOB*aboveN && g.PESUM <= 1000)
	g.OBMAS = vFloat("obmas_old")
	g.WUMAS = g.WORG[0]
	vAssume(g.OBMAS >= 0)
	g.WGMAX[stage] = vFloat("wgmax")
	vAssume(g.WGMAX[stage] >= 0 && g.WGMAX[stage] <= 0.05)
	g.REDUKSUM = 0
	g.TRRELSUM = 0
	g.PHYLLO = vFloat("phyllo")
	vAssume(g.PHYLLO >= 0)

	var GEHALT, OBALT, WUMALT, DTGESN float64
	worgOld := g.WORG
	pesumOld := g.PESUM
	ctl := zzR_Growth(g, l, GTW, MAINT, &GEHALT, &OBALT, &WUMALT, &DTGESN)
	vAssert("C09.growth.falls_through", ctl == 0)
	vCover("C09.growth.reach")
	vAssert("C09.growth.n_stress_factor_in_unit_interval", g.REDUK >= 0 && g.REDUK <= 1)
	sum := 0.0
	for i := 0; i < nrkom; i++ {
		vAssert("C09.growth.organ_mass_not_negative", g.WORG[i] >= 0)
		above := false
		for _, k := range l.AboveGroundOrgans {
			if k-1 == i {
				above = true
			}
		}
		if above {
			sum += g.WORG[i]
		}
	}
	vAssert("C09.growth.leaf_area_index_not_negative", g.LAI >= 0)
	vAssert("C09.growth.above_ground_mass_is_sum_of_its_organs", g.OBMAS == sum && g.OBMAS >= 0)
	vAssert("C09.growth.above_ground_mass_positive_with_leaves", g.OBMAS > 0) // divisor of the shoot N concentration
	// the crop's N content loses 70 % of the N of the leaf and stem mass that died today, and the mass that dies
	// is never more than the organ held: with pesumOld >= GEHOB * (leaves + stems) the content stays >= 0
	for i := 1; i <= 2 && i < nrkom; i++ {
		vAssert("C09.growth.dead_mass_at_most_organ_mass", l.DGORG[i]*g.DT.Num <= worgOld[i]+1e-9)
	}
	if !(kind == 2 && stage >= 4 && g.INTWICK.Index == 0) {
		// (a permanent crop that is cut and sprouts again additionally loses the N of the harvested organs)
		vAssert("C09.growth.crop_n_content_loses_dead_leaf_and_stem_n_only", vNear(g.PESUM, pesumOld-0.7*GEHALT*(l.DGORG[1]+l.DGORG[2])*g.DT.Num, 1e-9))
	} else {
		vCover("C09.growth.cover_regrowth_after_cut")
	}
	vAssert("C09.growth.root_mass_not_negative", g.WUMAS >= 0 && g.WUMAS == g.WORG[0])
	vAssert("C09.growth.assimilate_pool_not_negative", g.ASPOO >= 0)
	vAssert("C09.growth.stage_index_not_raised_here", g.INTWICK.Index <= stage)
	if g.WORG[1] < 0.2 && GTW > 100 {
		vCover("C09.growth.cover_leaf_floor")
	}
	vObserve("reduk", g.REDUK)
	vObserve("lai", g.LAI)
	vObserve("obmas", g.OBMAS)
	vObserve("aspoo", g.ASPOO)
	vObserve("worg1", g.WORG[1])
}

// C09: N content functions of PhytoOut (region zzR_NContentFn, lifted verbatim): for every one of the nine
// variants the critical and the maximum N concentration are positive and the maximum is not below the critical one.
func zzC09NContentFn(variant int) {
	g := new(GlobalVarsMain)
	l := new(CropSharedVars)
	g.AKF = NewDualType(1, 0)
	g.NGEFKT = variant
	cereal := vBool("rye_or_spring_barley")
	if cereal {
		g.FRUCHT[g.AKF.Index] = WR
	} else {
		g.FRUCHT[g.AKF.Index] = WW
	}
	g.PHYLLO = vFloat("phyllo")
	vAssume(g.PHYLLO >= 0 && g.PHYLLO <= 4000)
	g.OBMAS = vFloat("obmas")
	vAssume(g.OBMAS >= 0 && g.OBMAS <= 60000)
	g.WORG[3] = vFloat("worg3")
	vAssume(g.WORG[3] >= 0 && g.WORG[3] <= 40000)
	g.SubOrgan = vInt("suborgan")
	vAssume(g.SubOrgan >= 0 && g.SubOrgan <= 4)
	g.WORG[0] = g.WORG[3]
	g.WORG[1] = g.WORG[3]
	g.WORG[2] = g.WORG[3]
	g.RGA = vFloat("rga")
	g.RGB = vFloat("rgb")
	vAssume(g.RGA > 0 && g.RGA <= 0.06 && g.RGB >= -1 && g.RGB <= 0)
	l.tendsum = vFloat("tendsum")
	vAssume(l.tendsum >= 400 && l.tendsum <= 4000)
	g.GEHMIN = 0.0415
	g.GEHMAX = 0.06
	ctl := zzR_NContentFn(g, l)
	vAssert("C09.ncontent.falls_through", ctl == 0)
	vCover("C09.ncontent.reach")
	vAssert("C09.ncontent.critical_concentration_positive", g.GEHMIN > 0)
	vAssert("C09.ncontent.maximum_concentration_positive", g.GEHMAX > 0)
	vObserve("gehmin", g.GEHMIN)
	vObserve("gehmax", g.GEHMAX)
}

// C09: tissue N concentrations at the end of PhytoOut (region zzR_NConc, lifted verbatim). The state before the
// region is written in terms of the day's start: the crop's N content is the N of shoot and root at their
// concentrations minus the N of the leaf and stem mass that died today (at most 70 % of the shoot's N, see
// zzC09Growth). kind 0: cereal, 1: beet (yield organ counted with the shoot).
//   C09.nconc.root_concentration_*: for every state.
//   C09.nconc.shoot_concentration_not_negative: for every state in which the root did not grow, or grew while the
//   shoot did not shrink (otherwise the root's share of the uptake, dW_root/(dW_shoot+dW_root), exceeds one) and the
//   floor of 0.005 on the root concentration did not engage (the floor adds N to the root that the shoot pays for);
//   both corners have solver models at this level, their reachability in a run is not established (DESIGN A3).
func zzC09NConc(kind int) {
	g := new(GlobalVarsMain)
	g.AKF = NewDualType(1, 0)
	g.INTWICK = NewDualType(-1, 1)
	g.INTWICK.SetByIndex(2)
	if kind == 1 {
		g.FRUCHT[g.AKF.Index] = ZR
	} else {
		g.FRUCHT[g.AKF.Index] = WW
	}
	OBALT := vFloat("obalt")
	WUMALT := vFloat("wumalt")
	GEHALT := vFloat("gehalt")
	wugehOld := vFloat("wugeh_old")
	died := vFloat("died_fraction")
	vAssume(OBALT >= 0.1 && OBALT <= 60000 && WUMALT >= 0.1 && WUMALT <= 20000)
	vAssume(GEHALT >= 0 && GEHALT <= 0.1 && wugehOld >= 0.005 && wugehOld <= 0.05 && died >= 0 && died <= 0.7)
	g.WUGEH = wugehOld
	g.GEHOB = GEHALT
	g.WGMAX[2] = vFloat("wgmax")
	vAssume(g.WGMAX[2] >= 0.005 && g.WGMAX[2] <= 0.05 && wugehOld <= g.WGMAX[2])
	shootN := vFloat("shoot_n") // = OBALT * GEHALT
	rootN := vFloat("root_n")   // = WUMALT * WUGEH
	vAssume(vNear(shootN, OBALT*GEHALT, 1e-12) && vNear(rootN, WUMALT*wugehOld, 1e-12))
	g.PESUM = shootN*(1-died) + rootN
	g.OBMAS = vFloat("obmas")
	g.WUMAS = vFloat("wumas")
	g.WORG[3] = vFloat("worg3")
	vAssume(g.OBMAS >= 0.1 && g.OBMAS <= 60000 && g.WUMAS >= 0.1 && g.WUMAS <= 20000 && g.WORG[3] >= 0 && g.WORG[3] <= 40000)
	if kind == 1 {
		vAssume(OBALT >= g.WORG[3]) // OBALT includes the storage organ
	}
	SUMPE := vFloat("sumpe")
	g.NFIX = vFloat("nfix")
	vAssume(SUMPE >= 0 && SUMPE <= 6 && g.NFIX >= 0 && g.NFIX <= 6)
	if kind == 1 {
		vAssume(g.NFIX == 0)
	}
	ctl := zzR_NConc(g, OBALT, WUMALT, GEHALT, SUMPE)
	vAssert("C09.nconc.falls_through", ctl == 0)
	vCover("C09.nconc.reach")
	vAssert("C09.nconc.root_concentration_at_least_floor", g.WUGEH >= 0.005 || (kind == 1 && g.WUGEH != wugehOld))
	if g.WUMAS > WUMALT && kind == 0 {
		vAssert("C09.nconc.root_concentration_at_most_stage_maximum", g.WUGEH <= vMaxF(g.WGMAX[2], 0.005))
		vCover("C09.nconc.cover_root_grew")
	}
	if g.WUMAS <= WUMALT && kind == 0 {
		vAssert("C09.nconc.root_concentration_kept_without_root_growth", g.WUGEH == wugehOld)
	}
	shootNow := g.OBMAS
	if kind == 1 {
		shootNow = g.OBMAS + g.WORG[3]
	}
	// N is only moved between shoot and root: shoot N + root N = crop N content + today's uptake and fixation
	vAssert("C09.nconc.tissue_n_adds_up_to_crop_n", vNear(shootNow*g.GEHOB+g.WUMAS*g.WUGEH, g.PESUM+SUMPE+g.NFIX, 1e-6))
	if kind == 0 && (g.WUMAS <= WUMALT || (shootNow >= OBALT && g.WUGEH > 0.005)) {
		vAssert("C09.nconc.shoot_concentration_not_negative", g.GEHOB >= -1e-9)
	}
	vObserve("gehob", g.GEHOB)
	vObserve("wugeh", g.WUGEH)
}
