package hermes

// C13: measured initial values as fixed-width/blank-separated text and as CSV give the same start state.
// The two real extractors read the same record (numbers = numeric tokens, i.e. arbitrary reals) from
// a scanner over the respective layout.

import "strings"

func init() {
	vRegister("zzC13RotationFormats", func(a []int) { zzC13RotationFormats(a[0]) })
	vRegister("zzC13MeasuredFormats", func(a []int) { zzC13MeasuredFormats(a[0], a[1], a[2], a[3]) })
}

// n layers; m = method digit of the water columns (1 share of capacity, 2 weight %, 3 volume); hdr 0/1 = the two
// documented CSV header spellings; order 1 = CSV columns reversed
func zzC13MeasuredFormats(n, m, hdr, order int) {
	mk := func() *GlobalVarsMain {
		g := new(GlobalVarsMain)
		g.N = n
		g.Datum = DateConverter(0, DateDElong)
		g.BEGINN = 28000
		for i := 0; i < n; i++ {
			g.W[i] = vFloat("w", i)
			g.WMIN[i] = vFloat("wmin", i)
			g.CN[0][i] = vFloat("cn0", i)
		}
		return g
	}
	vals := []string{"nm03", "nm36", "nm69", "M", "w03", "w36", "w69", "nm912", "nm1215", "nm1520", "w912", "w1215", "w1520"}
	tok := func(v string) string {
		if v == "M" {
			return []string{"1", "2", "3"}[m-1]
		}
		return vFloatText(v)
	}
	// text: blank separated, fixed order
	txt := "ALLE      10011980"
	for _, v := range vals {
		txt += " " + tok(v)
	}
	textLines := []string{"Plot_ID   Date     Nm03 Nm36 Nm69 M W0_3  W3_6  W6_9  NM9-12 NM12-15 NM15-20  W9-12 W12-15 W15-20", "OTHER     10011980 1 1 1 1 1 1 1 1 1 1 1 1 1", txt, "end"}
	// CSV
	namesA := []string{"Plot_ID", "Date", "Nm03", "Nm36", "Nm69", "M", "W0_3", "W3_6", "W6_9", "NM9-12", "NM12-15", "NM15-20", "W9-12", "W12-15", "W15-20"}
	namesB := []string{"Id", "Date", "Nmin0-3", "Nmin3-6", "Nmin6-9", "M", "Water0-3", "Water3-6", "Water6-9", "Nmin9-12", "Nmin12-15", "Nmin15-20", "Water9-12", "Water12-15", "Water15-20"}
	names := namesA
	if hdr == 1 {
		names = namesB
	}
	fields := []string{"ALLE", "10011980"}
	for _, v := range vals {
		fields = append(fields, tok(v))
	}
	other := []string{"OTHER", "10011980", "1", "1", "1", "1", "1", "1", "1", "1", "1", "1", "1", "1", "1"}
	if order == 1 {
		// any column order, but the id stays first (the CSV extractor selects lines by their prefix)
		rev := func(f []string) []string {
			g := []string{f[0]}
			for k := len(f) - 1; k >= 1; k-- {
				g = append(g, f[k])
			}
			return g
		}
		names, fields, other = rev(names), rev(fields), rev(other)
	}
	csvLines := []string{strings.Join(names, ","), strings.Join(other, ","), strings.Join(fields, ",")}

	ga, gb := mk(), mk()
	ExtractMeasuredDataTxt(vScanner(textLines, len(textLines)), ga, "ALLE", "endit.txt")
	ExtractMeasuredDataCSV(vScanner(csvLines, len(csvLines)), gb, "ALLE", "endit.csv")
	vCover("C13.measured.cover")
	same := ga.NMESS == gb.NMESS && ga.MES[0] == gb.MES[0] && ga.MESS[0] == gb.MESS[0] && ga.WNZ[0] == gb.WNZ[0] &&
		ga.KNZ1[0] == gb.KNZ1[0] && ga.KNZ2[0] == gb.KNZ2[0] && ga.KNZ3[0] == gb.KNZ3[0] && ga.KNZ4[0] == gb.KNZ4[0] && ga.KNZ5[0] == gb.KNZ5[0] && ga.KNZ6[0] == gb.KNZ6[0]
	vAssert("C13.measured.same_record_level_values", same)
	for i := 0; i <= n; i++ {
		vAssert("C13.measured.same_initial_water_and_nitrogen_per_layer", ga.WG[2][i] == gb.WG[2][i] && ga.CN[1][i] == gb.CN[1][i])
	}
	// anchor: the first block's values are the written ones
	vAssert("C13.measured.values_are_the_written_ones", ga.NMESS == 1 && ga.KNZ1[0] == vFloat("nm03") && ga.KNZ6[0] == vFloat("nm1520") && ga.CN[1][0] == vFloat("nm03")/3 &&
		(m != 3 || ga.WG[2][0] == vFloat("w03")))
	vObserve("wg0", gb.WG[2][0])
	vObserve("cn0", gb.CN[1][0])
	vObserve("wnz", gb.WNZ[0])
}

// C13: crop rotation as text and as CSV. The two layouts share all of Input's rotation code except the way a
// line is split and the column positions; that part (region zzR_RotationColumns, lifted verbatim) must hand
// the same field texts to the shared code for the same record.
func zzC13RotationFormats(order int) {
	fields := []string{"F7", "WW ", "01101990", "15081991", vFloatText("rex"), vFloatText("yld"), vFloatText("org"), "Vx"}
	names := []string{"Field_ID", "crop", "sowing", "harvest", "Rex", "yld", "autorg", "variety"}
	// text layout: blank separated in the documented order (crop code without its padding blank)
	txt := ""
	for k, f := range fields {
		if k > 0 {
			txt += "  "
		}
		txt += strings.TrimSpace(f)
	}
	perm := make([]int, len(fields))
	for k := range perm {
		perm[k] = (k*3 + order) % len(fields) // 3 is coprime to 8: a permutation for every order
	}
	csvNames, csvFields := make([]string, len(fields)), make([]string, len(fields))
	for k, p := range perm {
		csvNames[k], csvFields[k] = names[p], strings.TrimSpace(fields[p])
	}
	cfgT, cfgC := NewDefaultConfig(), NewDefaultConfig()
	cfgT.CropFileFormat, cfgC.CropFileFormat = "txt", "csv"
	var hT, hC [8]int
	var splitT, splitC func(string) []string
	_, ctlT := zzR_RotationColumns(&cfgT, "Field crop sowing harvest Rex yld autorg variety", &hT[0], &hT[1], &hT[2], &hT[3], &hT[4], &hT[5], &hT[6], &hT[7], &splitT)
	_, ctlC := zzR_RotationColumns(&cfgC, strings.Join(csvNames, ","), &hC[0], &hC[1], &hC[2], &hC[3], &hC[4], &hC[5], &hC[6], &hC[7], &splitC)
	vAssert("C13.rotation.region_falls_through", ctlT == 0 && ctlC == 0)
	tt, tc := splitT(txt), splitC(strings.Join(csvFields, ","))
	vAssert("C13.rotation.same_number_of_fields", len(tt) == len(tc) && len(tt) == len(fields))
	for k := range fields {
		vAssert("C13.rotation.same_field_text_for_every_column", tt[hT[k]] == tc[hC[k]] && tt[hT[k]] == strings.TrimSpace(fields[k]))
	}
	vCover("C13.rotation.cover")
}
