package hermes

// C13: a soil profile written as fixed-width text and as CSV gives the same profile data.
// Both files carry the same field texts: numbers are symbolic decimal digits (with a concrete
// decimal point where the format has one), textures and the soil id are concrete. The real
// readers LoadSoil / LoadSoilCSV run on them (Session.Open replaced by a scanner over the lines;
// natively the files are written to a temporary directory and read by the real Open).

import (
	"bufio"
	"fmt"
	"os"
)

func init() {
	vRegister("zzC13SoilFormats", func(a []int) { zzC13SoilFormats(a[0], a[1], a[2]) })
}

var zzSFiles = map[string][]string{}
var zzSDir string

func zzSOpen(s *HermesSession, fd *FileDescriptior) (*os.File, *bufio.Scanner, error) {
	lines, ok := zzSFiles[fd.FilePath]
	if !ok {
		return nil, nil, fmt.Errorf("no such file %s", fd.FilePath)
	}
	return nil, vScanner(lines, len(lines)), nil
}

func zzSPut(name string, lines []string) string {
	if vSymbolic() {
		zzSFiles[name] = lines
		return name
	}
	if zzSDir == "" {
		d, err := os.MkdirTemp("", "zzsoil")
		if err != nil {
			panic(err)
		}
		zzSDir = d
	}
	text := ""
	for _, l := range lines {
		text += l + "\n"
	}
	p := zzSDir + "/" + name
	if err := os.WriteFile(p, []byte(text), 0o644); err != nil {
		panic(err)
	}
	return p
}

func zzSRemove() {
	os.RemoveAll(zzSDir)
	zzSDir = ""
}

// zzDig: a text of decimal digits (symbolic), with a concrete '.' after `before` digits when before < n
func zzDig(name string, idx, n, before int) string {
	var bs []byte
	for k := 0; k < n; k++ {
		if k == before && before > 0 && before < n {
			bs = append(bs, '.')
		}
		d := vByte(name, idx, k)
		vAssume(d >= '0' && d <= '9')
		bs = append(bs, d)
	}
	return string(bs)
}

var zzSTextures = []string{"SL3", "LS2", "TU3", "SS "}

// azho horizons; gw: 1 = groundwater level taken from the soil file; order: 0 = CSV columns as documented, 1 = reversed
func zzC13SoilFormats(azho, gw, order int) {
	sid := "007"
	type hor struct{ corg, tex, ukt, ld, stone, cn, fc, wp, gpv, sand, silt, clay string }
	hs := make([]hor, azho)
	for i := range hs {
		hs[i] = hor{corg: zzDig("corg", i, 3, 1), tex: zzSTextures[i%len(zzSTextures)], ukt: zzDig("ukt", i, 2, 0), ld: zzDig("ld", i, 1, 0),
			stone: zzDig("stone", i, 2, 0), cn: zzDig("cn", i, 3, 0), fc: zzDig("fc", i, 2, 0), wp: zzDig("wp", i, 2, 0), gpv: zzDig("gpv", i, 2, 0),
			sand: zzDig("sand", i, 2, 0), silt: zzDig("silt", i, 2, 0), clay: zzDig("clay", i, 2, 0)}
	}
	root, drdp, drf, gwl := zzDig("root", 0, 2, 0), zzDig("drdp", 0, 2, 0), zzDig("drf", 0, 2, 1), zzDig("gwl", 0, 2, 0)
	nuho := fmt.Sprintf("%02d", azho)
	// fixed-width text (column positions as in the shipped soil files)
	text := []string{"SID Corg Te  Lb B ST C/N C/S Hy Rd NUHo  FC WP PS S% Si C% Lmd  drdp drf gw"}
	for i, h := range hs {
		rd, nh := "  ", "  "
		if i == 0 {
			rd, nh = root, nuho
		}
		l := sid + " " + h.corg + " " + h.tex + " " + h.ukt + " " + h.ld + " " + h.stone + " " + h.cn + " xxx 00 " + rd + " " + nh + "   " +
			h.fc + " " + h.wp + " " + h.gpv + " " + h.sand + " " + h.silt + " " + h.clay + " 00  " + drdp + "   " + drf + gwl
		text = append(text, l)
	}
	// CSV
	names := []string{"SID", "C_org", "Texture", "LayerDepth", "BulkDensityClass", "Stone", "C/N", "RootDepth", "NumberHorizon", "FieldCapacity", "WiltingPoint",
		"PoreVolume", "Sand", "Silt", "Clay", "DrainageDepth", "Drainage%", "GroundWaterLevel"}
	row := func(i int, h hor) []string {
		return []string{sid, h.corg, h.tex, h.ukt, h.ld, h.stone, h.cn, root, nuho, h.fc, h.wp, h.gpv, h.sand, h.silt, h.clay, drdp, drf, gwl}
	}
	join := func(f []string) string {
		if order == 1 {
			g := make([]string, len(f))
			for k := range f {
				g[len(f)-1-k] = f[k]
			}
			f = g
		}
		l := ""
		for k, x := range f {
			if k > 0 {
				l += ","
			}
			l += x
		}
		return l
	}
	csv := []string{join(names)}
	for i, h := range hs {
		csv = append(csv, join(row(i, h)))
	}
	defer func() {
		if zzSDir != "" {
			os.RemoveAll(zzSDir)
			zzSDir = ""
		}
	}()
	session := NewHermesSession()
	hpT := &HFilePath{bofile: zzSPut("soil.txt", text)}
	hpC := &HFilePath{bofile: zzSPut("soil.csv", csv)}
	a, errA := LoadSoil(gw == 1, "zz", hpT, sid, session)
	b, errB := LoadSoilCSV(gw == 1, "zz", hpC, sid, session)
	vAssert("C13.soil.both_accept_or_both_reject", (errA == nil) == (errB == nil))
	if errA != nil || errB != nil {
		vCover("C13.soil.cover_rejected")
		return
	}
	vCover("C13.soil.cover_accepted")
	same := a.N == b.N && a.AZHO == b.AZHO && a.WURZMAX == b.WURZMAX && a.DRAIDEP == b.DRAIDEP && a.DRAIFAK == b.DRAIFAK &&
		a.GRW == b.GRW && a.GW == b.GW && a.GRHI == b.GRHI && a.GRLO == b.GRLO && a.CNRAT1 == b.CNRAT1 && a.useGroundwaterFromSoilfile == b.useGroundwaterFromSoilfile
	vAssert("C13.soil.same_profile_values", same)
	for i := 0; i < azho; i++ {
		sh := a.UKT[i+1] == b.UKT[i+1] && a.BART[i] == b.BART[i] && a.LD[i] == b.LD[i] && a.BULK[i] == b.BULK[i] && a.CGEHALT[i] == b.CGEHALT[i] &&
			a.CNRATIO[i] == b.CNRATIO[i] && a.NGEHALT[i] == b.NGEHALT[i] && a.HUMUS[i] == b.HUMUS[i] && a.STEIN[i] == b.STEIN[i] && a.FKA[i] == b.FKA[i] &&
			a.WP[i] == b.WP[i] && a.GPV[i] == b.GPV[i] && a.SSAND[i] == b.SSAND[i] && a.SLUF[i] == b.SLUF[i] && a.TON[i] == b.TON[i]
		vAssert("C13.soil.same_horizon_values", sh)
	}
	// and the values are the ones written (first horizon, as an anchor against both being wrong in the same way)
	d := func(name string, idx, k int) float64 { return float64(int(vByte(name, idx, k) - '0')) }
	vAssert("C13.soil.values_are_the_written_ones", a.DRAIFAK == d("drf", 0, 0)+d("drf", 0, 1)/10 && a.WURZMAX == int(d("root", 0, 0))*10+int(d("root", 0, 1)) &&
		a.STEIN[0] == (d("stone", 0, 0)*10+d("stone", 0, 1))/100 && a.FKA[0] == d("fc", 0, 0)*10+d("fc", 0, 1))
	vObserve("draifak_text", a.DRAIFAK)
	vObserve("draifak_csv", b.DRAIFAK)
	vObserveInt("n", a.N)
}
