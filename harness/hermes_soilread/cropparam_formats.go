package hermes

// C13: crop parameters in the classic fixed-width file and in YAML produced by the shipped converter.
// One classic file (numbers = numeric tokens after column 65, organ tables = symbolic decimal digits at
// their fixed columns) is read (a) by ReadCropParamClassic and (b) by ConvertCropParamClassicToYml followed
// by the assignment part of ReadCropParamYml (region zzR_ApplyCropParam, lifted verbatim). The YAML text in
// between (yaml.Marshal / yaml.Unmarshal of CropParam) is taken to be the identity.

func init() {
	vRegister("zzC13CropParamFormats", func(a []int) { zzC13CropParamFormats(a[0], a[1], a[2]) })
}

func zzPad(label string) string {
	for len(label) < 65 {
		label += " "
	}
	return label[:65]
}

// organ table line: 5-character numbers d.ddd at columns 25+8*(i+1); flags at 32 and 40
func zzOrganLine(name string, idx, organs int, flagD, flagL bool) (string, [5]float64) {
	b := make([]byte, 30+8*organs)
	for k := range b {
		b[k] = ' '
	}
	copy(b, "values")
	if flagD {
		b[32] = 'D'
	}
	if flagL {
		b[40] = 'L'
	}
	var vals [5]float64
	for i := 0; i < organs; i++ {
		p := 25 + 8*(i+1)
		v := 0.0
		scale := 1.0
		for k := 0; k < 4; k++ {
			d := vByte(name, idx, i, k)
			vAssume(d >= '0' && d <= '9')
			q := p + k
			if k >= 1 {
				q++
			}
			b[q] = d
			v += float64(int(d-'0')) * scale
			scale /= 10
		}
		b[p+1] = '.'
		vals[i] = v
	}
	return string(b), vals
}

// organs 2..3, stages 1..2; variant bit 0: N function 5 (a=, b=, org=), bit 1: permanent crop + legume flags
func zzC13CropParamFormats(organs, stages, variant int) {
	tok := func(name string, idx ...int) string { return vFloatText(name, idx...) }
	nfun5 := variant&1 == 1
	flags := variant&2 == 2
	var lines []string
	lines = append(lines, "Hermes crop parameter file", "crop: Testcrop", "----------")
	lines = append(lines, zzPad("Amax")+tok("maxamax"), zzPad("C type")+"1", zzPad("minimum temperature")+tok("mintmp"),
		zzPad("effective rooting depth")+tok("wumaxpf"), zzPad("root depth increase")+tok("rtveloc"))
	if nfun5 {
		lines = append(lines, zzPad("N function a="+tok("rga")+" b="+tok("rgb")+" org=S3")+"5")
	} else {
		lines = append(lines, zzPad("N function")+"1")
	}
	lines = append(lines, zzPad("above ground organs")+"12", zzPad("yield organ and fraction")+"2"+tok("yifak"),
		zzPad("initial N biomass")+tok("nbiom"), zzPad("initial N root")+tok("nroot"), zzPad("number of compartments")+[]string{"", "1", "2", "3"}[organs])
	lines = append(lines, "Organ    leaf    stem    root    ear"[:9+8*organs])
	worgLine, worg := zzOrganLine("worg", 0, organs, flags, flags)
	mairtLine, mairt := zzOrganLine("mairt", 0, organs, false, false)
	lines = append(lines, worgLine, mairtLine, zzPad("kc bare soil")+tok("kcini"), zzPad("number of stages")+[]string{"", "1", "2"}[stages])
	var pro, dead [2][5]float64
	for s := 0; s < stages; s++ {
		lines = append(lines, zzPad("---- stage ----")+[]string{"10", "31"}[s])
		for _, v := range []string{"tsum", "bas", "vschwell", "dayl", "dlbas", "dryswell", "lukrit", "laifkt", "wgmax"} {
			lines = append(lines, zzPad(v)+tok(v, s))
		}
		var pl, dl string
		pl, pro[s] = zzOrganLine("pro", s, organs, false, false)
		dl, dead[s] = zzOrganLine("dead", s, organs, false, false)
		lines = append(lines, pl, dl, zzPad("kc")+tok("kc", s))
		sum := 0.0
		for i := 0; i < organs; i++ {
			sum += pro[s][i]
		}
		vAssume(sum == 1) // partitioning of every stage sums to one (both readers report other files)
	}
	_, _, _ = worg, mairt, dead
	defer func() {
		if zzSDir != "" {
			zzSRemove()
		}
	}()
	path := zzSPut("PARAM_0.WW", lines)
	mk := func() (*GlobalVarsMain, *CropSharedVars) {
		g := new(GlobalVarsMain)
		g.Session = NewHermesSession()
		l := new(CropSharedVars)
		g.AKF = NewDualType(2, 1)
		g.FRUCHT[2] = CropType(vInt("crop_now"))
		g.FRUCHT[1] = CropType(vInt("crop_before"))
		g.GEHOB, g.WUGEH = vFloat("old_gehob"), vFloat("old_wugeh")
		for k := 0; k < organs; k++ {
			g.WORG[k] = vFloat("old_worg", k)
		}
		g.INTWICK = NewDualType(0, 1)
		// what the previous crop of the rotation (six stages, five organs) left in the run state
		g.PHYLLO, g.VERNTAGE, g.TROOTSUM = vFloat("prev_phyllo"), vFloat("prev_verntage"), vFloat("prev_trootsum")
		for s := 0; s < 6; s++ {
			g.SUM[s], g.DEV[s], g.TSUM[s] = vFloat("prev_sum", s), vInt("prev_dev", s), vFloat("prev_tsum", s)
			for i := 0; i < 5; i++ {
				g.PRO[s][i], g.DEAD[s][i] = vFloat("prev_pro", s, i), vFloat("prev_dead", s, i)
			}
		}
		for i := 0; i < 5; i++ {
			g.WDORG[i] = vFloat("prev_wdorg", i)
		}
		return g, l
	}
	g1, l1 := mk()
	ReadCropParamClassic(path, l1, g1)
	P, err := ConvertCropParamClassicToYml(path, g1.Session)
	vAssert("C13.cropparam.converter_accepts_the_file", err == nil)
	g2, l2 := mk()
	zzR_ApplyCropParam(path, l2, g2, &P)
	vCover("C13.cropparam.cover")
	same := g1.MAXAMAX == g2.MAXAMAX && l1.temptyp == l2.temptyp && g1.MINTMP == g2.MINTMP && g1.WUMAXPF == g2.WUMAXPF && g1.VELOC == g2.VELOC &&
		g1.NGEFKT == g2.NGEFKT && g1.RGA == g2.RGA && g1.RGB == g2.RGB && g1.SubOrgan == g2.SubOrgan && g1.YORGAN == g2.YORGAN && g1.YIFAK == g2.YIFAK &&
		g1.DAUERKULT == g2.DAUERKULT && g1.LEGUM == g2.LEGUM && g1.NRKOM == g2.NRKOM && l1.NRENTW == l2.NRENTW && g1.GEHOB == g2.GEHOB && g1.WUGEH == g2.WUGEH &&
		l1.kcini == l2.kcini && l1.tendsum == l2.tendsum && l1.useBBCH == l2.useBBCH && len(l1.AboveGroundOrgans) == len(l2.AboveGroundOrgans)
	vAssert("C13.cropparam.same_base_parameters", same)
	for i := 0; i < organs; i++ {
		vAssert("C13.cropparam.same_organ_parameters", g1.WORG[i] == g2.WORG[i] && g1.MAIRT[i] == g2.MAIRT[i] && g1.WDORG[i] == g2.WDORG[i])
	}
	for s := 0; s < stages; s++ {
		ss := g1.TSUM[s] == g2.TSUM[s] && g1.BAS[s] == g2.BAS[s] && g1.VSCHWELL[s] == g2.VSCHWELL[s] && g1.DAYL[s] == g2.DAYL[s] && g1.DLBAS[s] == g2.DLBAS[s] &&
			g1.DRYSWELL[s] == g2.DRYSWELL[s] && g1.LUKRIT[s] == g2.LUKRIT[s] && g1.LAIFKT[s] == g2.LAIFKT[s] && g1.WGMAX[s] == g2.WGMAX[s] &&
			l1.kc[s] == l2.kc[s] && l1.ENDBBCH[s] == l2.ENDBBCH[s]
		for i := 0; i < organs; i++ {
			ss = ss && g1.PRO[s][i] == g2.PRO[s][i] && g1.DEAD[s][i] == g2.DEAD[s][i]
		}
		vAssert("C13.cropparam.same_stage_parameters", ss)
	}
	// the whole run state and crop module state agree, whatever the previous crop left behind (every field, also
	// those a reader resets, derives or leaves alone)
	vAssert("C13.cropparam.same_state_in_every_field", vSameState(l1, l2) && vSameState(g1, g2, "Session"))
	if !g1.DAUERKULT {
		for s := 0; s < 6; s++ {
			vAssert("C09.sowing.no_phenology_date_of_the_previous_crop_survives", g1.DEV[s] == 0 && g2.DEV[s] == 0)
			vAssert("C09.sowing.no_temperature_sum_of_the_previous_crop_survives", g1.SUM[s] == 0 && g2.SUM[s] == 0)
		}
	}
	// anchor: values are the written ones
	vAssert("C13.cropparam.values_are_the_written_ones", g1.MAXAMAX == vFloat("maxamax") && g1.VELOC == vFloat("rtveloc")/200 && g1.TSUM[0] == vFloat("tsum", 0) &&
		g1.PRO[0][1] == pro[0][1] && g1.MAIRT[0] == mairt[0])
	vObserve("veloc", g2.VELOC)
	vObserve("pro01", g2.PRO[0][1])
}
