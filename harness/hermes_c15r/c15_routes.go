package hermes

// C15: soil parameter assignment on the pedotransfer route of Input and the
// groundwater-change block of the day loop (regions lifted verbatim).

func init() {
	vRegister("zzC15PTFRoute", func(a []int) { zzC15PTFRoute(a[0]) })
	vRegister("zzC15GWChange", func(a []int) { zzC15GWChange(a[0], a[1]) })
}

func zzC15PTFRoute(which int) {
	g := new(GlobalVarsMain)
	l := new(InputSharedVars)
	g.N = 3
	g.PTF = which
	g.BART[0] = "SL2"
	clay := vFloat("clay")
	silt := vFloat("silt")
	sand := vFloat("sand")
	corg := vFloat("corg")
	vAssume(clay >= 5 && silt >= 5 && sand >= 5 && sand <= 85)
	vAssume(clay+silt+sand == 100)
	vAssume(corg >= 0 && corg <= 6)
	l.TON[0], l.SLUF[0], l.SSAND[0] = clay, silt, sand
	g.CGEHALT[0] = corg
	g.GPV[0] = vFloat("gpv")
	vAssume(g.GPV[0] > 0 && g.GPV[0] < 100)
	L, lindex, LTindex := 1, 0, 0
	err, ctl := zzR_PTFRoute(l, g, L, lindex, LTindex)
	vCover("C15.ptfroute.reach")
	vAssert("C15.ptfroute.no_error_for_valid_texture", ctl == 0 && err == nil)
	vObserve("w", g.W[0])
	vObserve("wmin", g.WMIN[0])
	vObserve("wred", g.WRED)
	// the route hands every transfer function its own arguments (organic carbon, clay, and silt - sand for the
	// fourth): the layer gets exactly what the function returns for this soil
	var fc, wp float64
	switch which {
	case 1:
		fc, wp = PTF1(corg, clay, silt)
	case 2:
		fc, wp = PTF2(corg, clay, silt)
	case 3:
		fc, wp = PTF3(corg, clay, silt)
	default:
		fc, wp = PTF4(corg, clay, sand)
	}
	vAssert("C15.ptfroute.layer_gets_the_selected_functions_values", g.W[0] == fc && g.WMIN[0] == wp && g.PORGES[0] == g.GPV[0]/100)
	if which == 4 {
		return // the ordering of the fourth function's values is not decided by any solver (outside the claim)
	}
	vAssert("C15.ptfroute.ordered", 0 < g.WMIN[0] && g.WMIN[0] < g.W[0] && g.W[0] < 1)
	vAssert("C15.ptfroute.wnor_is_fc", g.WNOR[0] == g.W[0])
	if !vKnown("C15-wred-units-ptf-route") {
		vAssert("C15.ptfroute.threshold_between_wp_and_fc", g.WMIN[0] < g.WRED && g.WRED < g.W[0])
	}
}

// groundwater change on the "restore" route (explicit values or pedotransfer functions):
// after the block the parameters depend only on the backups and the new level
func zzC15GWChange(n, ptf int) {
	g := NewGlobalVarsMain()
	g.N = n
	g.PTF = ptf
	g.CAPPAR = 1
	g.BART[0] = "SL2"
	g.GROUNDWATERFROM = Soilfile
	old := vFloat("oldgrw")
	g.GRW = vFloat("grw")
	vAssume(g.GRW >= 1 && g.GRW <= 30 && old >= 1 && old <= 30)
	for i := 0; i < n; i++ {
		g.W_Backup[i] = vFloat("wb", i)
		g.WMIN_Backup[i] = vFloat("wminb", i)
		g.PORGES_Backup[i] = vFloat("pb", i)
		g.WNOR_Backup[i] = vFloat("wnorb", i)
		vAssume(0 < g.WMIN_Backup[i] && g.WMIN_Backup[i] < g.WNOR_Backup[i] && g.WNOR_Backup[i] <= g.W_Backup[i] && g.W_Backup[i] <= g.PORGES_Backup[i] && g.PORGES_Backup[i] < 1)
		// arbitrary leftovers of earlier groundwater levels
		g.W[i] = vFloat("wcur", i)
		g.WMIN[i] = vFloat("wmincur", i)
		g.PORGES[i] = vFloat("pcur", i)
		g.WNOR[i] = vFloat("wnorcur", i)
		g.WG[1][i] = vFloat("wg1", i)
	}
	g.WRED = vFloat("wredcur")
	oldGrW := old
	var inp InputSharedVars
	var hp HFilePath
	_, ctl := zzR_GWChange(&g, &inp, &hp, oldGrW)
	vCover("C15.gwchange.reach")
	vAssert("C15.gwchange.falls_through", ctl == 0)
	if g.GRW != old {
		vCover("C15.gwchange.cover_level_changed")
		eps := 1e-9
		for i := 0; i < n; i++ {
			vObserve("w", g.W[i])
			// parameters are a function of the backups and the new level only
			vAssert("C15.gwchange.wp_ps_restored", g.WMIN[i] == g.WMIN_Backup[i] && g.PORGES[i] == g.PORGES_Backup[i] && g.WNOR[i] == g.WNOR_Backup[i])
			if float64(i+1) <= g.GRW {
				vAssert("C15.gwchange.fc_restored_above_table", g.W[i] == g.W_Backup[i])
			}
			if float64(i) >= g.GRW+1 {
				vAssert("C15.gwchange.fc_is_pore_volume_below_table", vNear(g.W[i], g.PORGES[i], eps))
			}
			vAssert("C15.gwchange.ordered", g.WMIN[i] < g.W[i] && g.W[i] <= g.PORGES[i]+eps)
		}
		if !vKnown("C15-wred-units-gw-restore") {
			vAssert("C15.gwchange.threshold_between_wp_and_fc", g.WMIN[0] < g.WRED && g.WRED < g.W[0])
		}
	}
}
