package main

// C17: the simulator's -lines a-b option launches exactly the batch lines a..b (1-based),
// each once (argument parsing and dispatch loop lifted from hermes_main.go).

import "strconv"

func init() {
	vRegister("zzC17Lines", func(a []int) { zzC17Lines(a[0]) })
}

func zzItoa2(a, b byte) string { return string([]byte{a, b}) }

// L non-empty batch lines; the range "aa-bb" is given as two-digit symbolic numbers
func zzC17Lines(L int) {
	a0, a1, b0, b1 := vByte("a", 0), vByte("a", 1), vByte("b", 0), vByte("b", 1)
	vAssume(a0 >= '0' && a0 <= '9' && a1 >= '0' && a1 <= '9' && b0 >= '0' && b0 <= '9' && b1 >= '0' && b1 <= '9')
	a := int(a0-'0')*10 + int(a1-'0')
	b := int(b0-'0')*10 + int(b1-'0')
	// ranges as the calculator prints them: 1 <= a <= b
	vAssume(a >= 1 && a <= b)
	argsWithoutProg := []string{"-lines", zzItoa2(a0, a1) + "-" + zzItoa2(b0, b1)}
	i := 0
	startLine, endLine := 0, -1
	zzR_LinesArg(argsWithoutProg, &startLine, &endLine, i)
	vCover("C17.lines.reach")
	var configLines []string
	for k := 0; k < L; k++ {
		configLines = append(configLines, "project=p"+strconv.Itoa(k))
	}
	concurrentOperations = 100
	var activeRuns uint16
	var errorSummaryResult []string
	zzR_Dispatch(nil, "wd", startLine, endLine, false, configLines, nil, nil, &activeRuns, nil, &errorSummaryResult)
	total := 0
	for k := 0; k < L; k++ {
		n := vGoCount("[" + strconv.Itoa(k) + "]")
		total += n
		want := 0
		if k+1 >= a && k+1 <= b {
			want = 1
		}
		vAssert("C17.lines.each_line_of_the_range_launched_once", n == want)
	}
	vAssert("C17.lines.active_run_counter", int(activeRuns) == total)
}
