package main

// C11: the batch dispatcher (doConcurrentBatchRun, the real function) starts every batch line exactly once,
// collects every result and reports exactly the failed runs, for every order in which results and log
// messages arrive while it waits for a free slot. Runs are not executed (go statements are recorded);
// `select` is the executor's sequential abstraction: a result can arrive only for a run that was started
// and not yet collected, at most RecvLimit log messages arrive, the case taken is arbitrary among the
// ready ones (engine/sym/selectmodel.go).

import (
	"strconv"

	"github.com/zalf-rpm/Hermes2Go/hermes"
)

func init() {
	vRegister("zzC11Dispatch", func(a []int) { zzC11Dispatch(a[0], a[1]) })
}

func zzC11Dispatch(L, slots int) {
	var configLines []string
	for k := 0; k < L; k++ {
		configLines = append(configLines, "project=p"+strconv.Itoa(k)+" plotNr=1")
	}
	concurrentOperations = uint16(slots)
	doConcurrentBatchRun(nil, "wd", 0, -1, false, configLines)
	vCover("C11.dispatch.reach")
	for k := 0; k < L; k++ {
		vAssert("C11.dispatch.every_line_started_exactly_once", vGoCount("["+strconv.Itoa(k)+"]") == 1)
	}
	vAssert("C11.dispatch.every_result_collected", vRecvCount("result") == L)
	ints, _ := vTokens(vLastOut())
	vAssert("C11.dispatch.error_count_is_number_of_failed_runs", len(ints) == 1 && ints[0] == vRecvFlagCount("Success", false))
	// the summary lists exactly the failed runs: the line of every received result is printed once if the run
	// failed and not at all if it succeeded (every received result carries its own log id)
	vAssert("C11.dispatch.summary_header_printed_once", vOutCount("Error Summary:") == 1)
	for k := 1; k <= vRecvN(); k++ {
		if vRecvTaken(k, 0) {
			r, ok := vRecvValue(k, 0).(*hermes.RunReturn)
			if !ok {
				continue
			}
			listed := vOutCount(r.LogID + " Error: run failed")
			if r.Success {
				vAssert("C11.dispatch.successful_run_not_in_error_summary", listed == 0)
			} else {
				vAssert("C11.dispatch.failed_run_listed_exactly_once", listed == 1)
				vCover("C11.dispatch.cover_failed_run_listed")
			}
		}
	}
	if vRecvCount("log") > 0 && vRecvFlagCount("Success", false) > 0 {
		vCover("C11.dispatch.cover_log_message_and_failed_run")
	}
}
