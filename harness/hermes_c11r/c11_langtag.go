package hermes

// C11: termination of the day-length search loops used by the fertiliser prediction.

import "math"

func init() {
	vRegister("zzC11DayLength", func(a []int) { zzC11DayLength() })
	vRegister("zzC11LangTagAt", func(a []int) { zzC11LangTagAt(a[0]) })
}

// For every latitude in [49.2, 65] degrees north day 150 is longer than 14 h and day 172 longer
// than 16 h, hence the first search loop stops by day 150 and the second one by day 172.
func zzC11DayLength() {
	LAT := vFloat("lat")
	vAssume(LAT >= 49.2 && LAT <= 65)
	for _, d := range []float64{49.19, 65.01} {
		vLemmaPoint("SinMono", d*math.Pi/180.)
		vLemmaPoint("CosMono", d*math.Pi/180.)
	}
	vLemmaPoint("Asin", 0.5004)
	vLemmaPoint("Asin", 0.2592)
	d150, _, _, _, _, _, _ := CalculateDayLenght(150, LAT)
	d172, _, _, _, _, _, _ := CalculateDayLenght(172, LAT)
	vCover("C11.daylength.reach")
	vObserve("d150", d150)
	vObserve("d172", d172)
	vAssert("C11.daylength.day150_longer_than_14h", d150 > 14)
	vAssert("C11.daylength.day172_longer_than_16h", d172 > 16)
}

// The real search loops at a concrete latitude (degrees): they must finish within the first year.
func zzC11LangTagAt(latDeg int) {
	f := LangTagConverter(50, DateDElong)
	tag, p1, p2 := f(float64(latDeg), "----------", 100)
	vCover("C11.langtag.reach")
	vAssert("C11.langtag.found_days_in_first_year", tag >= 1 && tag <= 366 && p1 > 0 && p2 > 0)
}
