package hermes

// C09: daily N uptake per layer (region zzR_NUptake of PhytoOut)

func init() {
	vRegister("zzC09NUptake", func(a []int) { zzC09NUptake(a[0], a[1]) })
}

// daily N uptake per layer (distribution loop and fixation of PhytoOut, lifted verbatim): uptake is never
// negative, leaves the residual 0.75 kg N/ha (never more than the layer holds), the total is non-negative;
// for a legume the fixed amount is not negative either.
// MASS (mass flow) >= 0 and DIFF (diffusion, either sign) are the per-layer supplies computed before the region.
func zzC09NUptake(n, legum int) {
	g := new(GlobalVarsMain)
	g.N = 20
	g.DZ = NewDualType(10, 0)
	g.DT = NewDualType(1, 0)
	g.WURZ = n
	g.GRW = vFloat("grw")
	vAssume(g.GRW >= 1 && g.GRW <= 30)
	g.LEGUM = legum == 1
	var MASS, DIFF [20]float64
	TRNSUM, SUMDIFF := 0.0, 0.0
	for i := 0; i < n; i++ {
		g.C1[i] = vFloat("c1", i)
		vAssume(g.C1[i] >= 0 && g.C1[i] <= 500)
		MASS[i] = vFloat("mass", i)
		vAssume(MASS[i] >= 0 && MASS[i] <= 50)
		DIFF[i] = vFloat("diff", i)
		vAssume(DIFF[i] >= -50 && DIFF[i] <= 50)
		g.PE[i] = vFloat("pe_old", i)
		if float64(i) < float64(int(vMinF(float64(n), g.GRW))) {
			TRNSUM += MASS[i]
			SUMDIFF += DIFF[i]
		}
	}
	DTGESN := vFloat("dtgesn")
	vAssume(DTGESN >= 0 && DTGESN <= 6) // clamped to [0, 6*DT] before the region
	g.NFIXSUM = vFloat("nfixsum")
	vAssume(g.NFIXSUM >= 0)
	var min, SUMPE float64
	nfixOld := g.NFIXSUM
	ctl := zzR_NUptake(g, DTGESN, TRNSUM, SUMDIFF, &MASS, &DIFF, &min, &SUMPE)
	vAssert("C09.nuptake.falls_through", ctl == 0)
	lim := int(vMinF(float64(n), g.GRW))
	for i := 0; i < n; i++ {
		if i < lim {
			vAssert("C09.nuptake.layer_uptake_not_negative", g.PE[i] >= 0)
			vAssert("C09.nuptake.layer_keeps_residual", g.PE[i] <= vMaxF(g.C1[i]-0.75, 0))
		}
	}
	vAssert("C09.nuptake.total_not_negative", SUMPE >= 0)
	if g.LEGUM {
		// the sign of the fixation is decided under C07 (zzC07Fixation; defect found there and repaired, fix 9131d8e)
		vAssert("C09.nuptake.fixation_at_most_demand", g.NFIX <= 0.74*DTGESN+1e-12)
	} else {
		vAssert("C09.nuptake.no_fixation_without_legume", g.NFIX == 0 && g.NFIXSUM == nfixOld)
	}
	if SUMPE > 0 && DIFF[0] < 0 {
		vCover("C09.nuptake.cover_negative_diffusion")
	}
	vObserve("sumpe", SUMPE)
	vObserve("nfix", g.NFIX)
}

func vMinF(a, b float64) float64 {
	if a < b {
		return a
	}
	return b
}

func vMaxF(a, b float64) float64 {
	if a > b {
		return a
	}
	return b
}

