package hermes

// C09 (reduced): development stage advance, automatic harvest and rooting depth limits
// (regions lifted verbatim from PhytoOut).

func init() {
	vRegister("zzC09Stage", func(a []int) { zzC09Stage(a[0]) })
	vRegister("zzC09RootContract", func(a []int) { zzC09RootContract() })
	vRegister("zzC09RootDepth", func(a []int) { zzC09RootDepth(a[0]) })
	vRegister("zzC16AutoHarvest", func(a []int) { zzC16AutoHarvest() })
}

// one day: the stage index never decreases, advances by at most one, only when the
// stage's temperature sum is reached, and never beyond the number of stages
func zzC09Stage(nrentw int) {
	g := new(GlobalVarsMain)
	l := new(CropSharedVars)
	l.NRENTW = nrentw
	g.TAG = NewDualType(0, 1)
	doy := vInt("doy")
	vAssume(doy >= 1 && doy <= 366)
	g.TAG.SetByIndex(doy - 1)
	g.INTWICK = NewDualType(0, 1)
	stage := vInt("stage") // 1-based current stage
	vAssume(stage >= 1 && stage <= nrentw)
	g.INTWICK.SetByIndex(stage - 1)
	g.Kalender = func(int) string { return "date" }
	for i := 0; i < nrentw; i++ {
		g.SUM[i] = vFloat("sum", i)
		g.TSUM[i] = vFloat("tsum", i)
		vAssume(g.SUM[i] >= 0 && g.TSUM[i] > 0)
		g.DEV[i] = vInt("dev", i)
	}
	zeit := vInt("zeit")
	idx0 := g.INTWICK.Index
	reached := g.SUM[idx0] >= g.TSUM[idx0]
	ctl := zzR_StageAdvance(g, l, zeit)
	vCover("C09.stage.reach")
	vAssert("C09.stage.falls_through", ctl == 0)
	vObserveInt("stage", g.INTWICK.Index)
	vAssert("C09.stage.never_decreases", g.INTWICK.Index >= idx0)
	vAssert("C09.stage.advances_by_at_most_one", g.INTWICK.Index <= idx0+1)
	vAssert("C09.stage.never_beyond_last_stage", g.INTWICK.Index+1 <= nrentw)
	vAssert("C09.stage.index_and_number_in_step", g.INTWICK.Num == float64(g.INTWICK.Index+1))
	if g.INTWICK.Index == idx0+1 {
		vCover("C09.stage.cover_advanced")
		vAssert("C09.stage.advances_only_when_sum_reached", reached)
		vAssert("C09.stage.phenology_day_recorded", g.DEV[g.INTWICK.Index] == doy)
	}
}

// rooting depth after a day never exceeds the profile nor the soil's root limit
func zzC09RootDepth(n int) {
	g := new(GlobalVarsMain)
	g.N = n
	g.DZ = NewDualType(10, 0)
	g.WURZMAX = vInt("wurzmax")
	vAssume(g.WURZMAX >= 1 && g.WURZMAX <= 20)
	g.WUMAXPF = vFloat("wumaxpf")
	vAssume(g.WUMAXPF > 0 && g.WUMAXPF <= 20)
	g.VELOC = vFloat("veloc")
	g.PHYLLO = vFloat("phyllo")
	g.SUM[0] = vFloat("sum0")
	// root() is replaced by "any result within its contract" (zzC09RootContract proves the contract on
	// the real function); natively the temperature sum is searched for which the real root() returns
	// (just below) the model's value, so that a counterexample is replayed with the real function
	rq := vFloat("root", 1, 0)
	vAssume(rq >= 0.022)
	if !vSymbolic() {
		g.VELOC, g.PHYLLO = 0.005, 0
		lo, hi := -3000.0, 30000.0
		for it := 0; it < 200; it++ {
			mid := (lo + hi) / 2
			if q, _, _ := root(g.VELOC, mid, g.DZ.Num); q > rq {
				lo = mid
			} else {
				hi = mid
			}
		}
		g.SUM[0] = hi
	}
	var WURM, Qrez float64
	ctl := zzR_RootDepth(g, &WURM, &Qrez)
	vCover("C09.root.reach")
	vAssert("C09.root.falls_through", ctl == 0)
	vObserveInt("wurz", g.WURZ)
	vAssert("C09.root.depth_within_profile", g.WURZ <= n)
	vAssert("C09.root.depth_within_soil_root_limit", float64(g.WURZ) <= WURM && g.WURZ >= 0)
}

// contract of the real root(): the density parameter is at least 0.022 (potential depth <= 204.6 cm) and positive
func zzC09RootContract() {
	veloc, ts := vFloat("veloc"), vFloat("tempsum")
	vAssume(veloc > 0.0001 && veloc < 0.1 && ts >= -500 && ts <= 30000)
	q, depth, _ := root(veloc, ts, 10)
	vAssert("C09.rootfn.density_at_least_floor", q >= 0.022)
	vAssert("C09.rootfn.potential_depth_positive_and_bounded", depth > 0 && depth <= 4.5/0.022+1e-9)
}

// automatic harvest: a harvest date set by the trigger is today and not later than the latest harvest date;
// on the day before the latest date the harvest is forced
func zzC16AutoHarvest() {
	g := new(GlobalVarsMain)
	l := new(CropSharedVars)
	l.NRENTW = 3
	g.DZ = NewDualType(10, 0)
	g.AKF = NewDualType(1, 1)
	g.TAG = NewDualType(10, 1)
	g.INTWICK = NewDualType(0, 1)
	stage := vInt("stage")
	vAssume(stage >= 1 && stage <= 3)
	g.INTWICK.SetByIndex(stage - 1)
	for i := 0; i < 3; i++ {
		g.SUM[i] = vFloat("sum", i)
		g.TSUM[i] = vFloat("tsum", i)
		vAssume(g.SUM[i] >= 0 && g.TSUM[i] > 0)
	}
	zeit := vInt("zeit")
	vAssume(zeit >= 10 && zeit <= 80000)
	g.ERNTE[1] = vInt("ernte")
	g.ERNTE2[1] = vInt("ernte2")
	vAssume(g.ERNTE[1] >= 0 && g.ERNTE[1] <= 80000 && g.ERNTE2[1] >= 0 && g.ERNTE2[1] <= 80001)
	// invariant of the day loop: not harvested yet => the latest harvest date is still ahead
	vAssume(g.ERNTE[1] == 0 && zeit <= g.ERNTE2[1]-1 || g.ERNTE[1] >= 1)
	latest := g.ERNTE2[1]
	g.SAAT[2] = vInt("nextsowing")
	vAssume(g.SAAT[2] >= 0 && g.SAAT[2] <= 80000)
	g.WG[0][0], g.WMIN[0], g.WNOR[0] = vFloat("wg"), vFloat("wmin"), vFloat("wnor")
	vAssume(0 < g.WMIN[0] && g.WMIN[0] < g.WNOR[0] && g.WNOR[0] < 1 && g.WG[0][0] > 0 && g.WG[0][0] < 1)
	for d := 7; d <= 10; d++ {
		g.REGEN[d] = vFloat("rain", d)
		vAssume(g.REGEN[d] >= 0)
	}
	g.MAXHMOI[1], g.MINHMOI[1], g.RAINLIM[1], g.RAINACT[1] = vFloat("maxhmoi"), vFloat("minhmoi"), vFloat("rainlim"), vFloat("rainact")
	e0 := g.ERNTE[1]
	ctl := zzR_AutoHarvest(g, l, zeit)
	vCover("C16.harvest.reach")
	vAssert("C16.harvest.falls_through", ctl == 0)
	if e0 != 0 {
		vAssert("C16.harvest.fixed_date_untouched", g.ERNTE[1] == e0)
	} else if g.ERNTE[1] != 0 {
		vCover("C16.harvest.cover_harvest_set")
		vAssert("C16.harvest.not_later_than_latest_date", g.ERNTE[1] <= latest && g.ERNTE[1] >= zeit)
	}
	if e0 == 0 && zeit == latest-1 {
		vAssert("C16.harvest.forced_before_latest_date", g.ERNTE[1] != 0)
	}
	// invariant for tomorrow
	vAssert("C16.harvest.invariant_preserved", g.ERNTE[1] != 0 || zeit+1 <= g.ERNTE2[1]-1)
}


