package hermes

func init() {
	vRegister("zzC19Whole", func(a []int) { zzC19Whole(a[0], a[1]) })
}

func zzMin(a, b float64) float64 {
	if a < b {
		return a
	}
	return b
}
func zzMax(a, b float64) float64 {
	if a > b {
		return a
	}
	return b
}


// the whole of Soiltemp (not cut into regions, so independent of how the routine is organised) on soils at the
// corners of the admissible box - per layer loose/dense x dry/wet, code = base-4 digits of combo - with every
// temperature symbolic: the thermal properties are then numbers and the 24 explicit steps are linear in the
// temperatures. All layer temperatures and daily means stay inside the envelope of the old profile, the surface
// value imposed today and the lower boundary value.
func zzC19Whole(n, combo int) {
	g := new(GlobalVarsMain)
	g.N = n
	g.DZ = NewDualType(10, 0)
	g.DT = NewDualType(1, 0)
	g.TAG = NewDualType(5, 1)
	g.AZHO = 1
	g.UKT[1] = n
	g.LAI = 4 // closed canopy: surface value = mean of minimum and maximum air temperature
	g.TMIN[5] = vFloat("tmin")
	g.TMAX[5] = vFloat("tmax")
	g.TEMP[5] = (g.TMIN[5] + g.TMAX[5]) / 2
	vAssume(-60 <= g.TMIN[5] && g.TMIN[5] <= g.TMAX[5] && g.TMAX[5] <= 60)
	g.TBASE = vFloat("tbase")
	vAssume(-60 <= g.TBASE && g.TBASE <= 60)
	lo := zzMin(g.TMIN[5], g.TBASE)
	hi := zzMax(g.TMAX[5], g.TBASE)
	c := combo
	for i := 0; i < n; i++ {
		g.BD[i] = []float64{0.8, 2.2}[c%2]
		g.WG[0][i] = []float64{0.001, 0.7}[(c/2)%2]
		g.HUMUS[i] = 0.01
		c /= 4
	}
	for i := 0; i <= n; i++ {
		g.TSOIL[0][i] = vFloat("tsoil", i)
		vAssume(-60 <= g.TSOIL[0][i] && g.TSOIL[0][i] <= 60)
		lo = zzMin(lo, g.TSOIL[0][i])
		hi = zzMax(hi, g.TSOIL[0][i])
	}
	Soiltemp(g)
	vCover("C19.whole.reach")
	eps := 1e-6
	for i := 0; i <= n; i++ {
		vObserve("t", g.TSOIL[0][i])
		vAssert("C19.whole.layer_temperature_inside_envelope", lo-eps <= g.TSOIL[0][i] && g.TSOIL[0][i] <= hi+eps)
		vAssert("C19.whole.daily_mean_inside_envelope", lo-eps <= g.TD[i] && g.TD[i] <= hi+eps)
	}
	vAssert("C19.whole.lower_boundary_fixed", g.TSOIL[0][n] == g.TBASE)
}
