package hermes

// C19: Soiltemp cut into prefix / one iteration of the hourly loop / suffix
// (regions lifted verbatim from the current source, see specs/C19.json).

func init() {
	vRegister("zzC19Pre", func(a []int) { zzC19Pre(a[0]) })
	vRegister("zzC19Body", func(a []int) { zzC19Body(a[0]) })
	vRegister("zzC19Post", func(a []int) { zzC19Post(a[0]) })
}

// prefix: thermal properties and boundary values
func zzC19Pre(n int) {
	g := new(GlobalVarsMain)
	g.N = n
	g.DZ = NewDualType(10, 0)
	g.DT = NewDualType(1, 0)
	g.TAG = NewDualType(5, 1)
	g.LAI = vFloat("lai")
	vAssume(g.LAI >= 0 && g.LAI <= 12)
	g.RAD[5] = vFloat("rad")
	vAssume(g.RAD[5] >= 0 && g.RAD[5] <= 25)
	g.ETA = vFloat("eta")
	vAssume(g.ETA >= 0 && g.ETA <= 1)
	g.TEMP[5] = vFloat("temp")
	g.TMIN[5] = vFloat("tmin")
	g.TMAX[5] = vFloat("tmax")
	vAssume(-60 <= g.TMIN[5] && g.TMIN[5] <= g.TEMP[5] && g.TEMP[5] <= g.TMAX[5] && g.TMAX[5] <= 60)
	g.TBASE = vFloat("tbase")
	vAssume(-60 <= g.TBASE && g.TBASE <= 60)
	for i := 0; i <= n; i++ {
		g.TSOIL[0][i] = vFloat("tsoil", i)
	}
	for i := 0; i < n; i++ {
		g.BD[i] = vFloat("bd", i)
		vAssume(0.8 <= g.BD[i] && g.BD[i] <= 2.2)
		g.HUMUS[i] = vFloat("humus", i)
		vAssume(0 <= g.HUMUS[i] && g.HUMUS[i] <= 0.11)
		g.WG[0][i] = vFloat("wg", i)
		vAssume(0.001 <= g.WG[0][i] && g.WG[0][i] <= 0.7)
		g.TDSUM[i] = vFloat("tdsum", i)
	}
	// the rest of the soil description (one or two horizons, stone content)
	g.AZHO = 1 + n%2
	g.UKT[0], g.UKT[1], g.UKT[2] = 0, 1, n
	if g.AZHO == 1 {
		g.UKT[1] = n
	}
	for h := 0; h < g.AZHO; h++ {
		g.STEIN[h] = vFloat("stein", h)
		vAssume(0 <= g.STEIN[h] && g.STEIN[h] <= 0.9)
	}
	old0 := g.TSOIL[0][0]
	tmin, tmax := g.TMIN[5], g.TMAX[5]
	zzR_SoiltempPre(g)
	vCover("C19.pre.reach")
	for i := 0; i < n; i++ {
		vObserve("heatcond", g.HEATCOND[i])
		vObserve("heatcap", g.HEATCAP[i])
		vAssert("C19.pre.heatcap_positive", g.HEATCAP[i] > 0)
		// diffusion number alpha*dt/dz^2 = HEATCOND/HEATCAP/2400 within [0, 1/2]
		vAssert("C19.pre.diffusion_number_stable", g.HEATCOND[i] >= 0 && g.HEATCOND[i] <= 1200*g.HEATCAP[i])
		vAssert("C19.pre.tdsum_reset", g.TDSUM[i] == 0)
	}
	// boundary values: bottom fixed, surface inside the air-temperature envelope
	// (with the radiation overshoot the surface formula allows) and the old surface value
	vAssert("C19.pre.bottom_fixed", g.TSOIL[0][n] == g.TBASE && g.TSOIL[1][n] == g.TBASE)
	vObserve("surface", g.TSOIL[1][0])
	lo := zzMin(tmin, old0)
	vAssert("C19.pre.surface_lower", g.TSOIL[1][0] >= lo-1e-9)
	// upper: mean of min/max, or the albedo-weighted radiation formula
	rad := g.RAD[5] * 200
	over := tmin + (tmax-tmin)*1.23 // sqrt(0.0003*radiat) <= sqrt(1.5) < 1.23 for radiat <= 5000
	_ = rad
	hi := zzMax(zzMax(tmax, over), old0)
	vAssert("C19.pre.surface_upper", g.TSOIL[1][0] <= hi+1e-9)
}

// one iteration of the hourly loop from an arbitrary profile
func zzC19Body(n int) {
	g := new(GlobalVarsMain)
	g.N = n
	g.DZ = NewDualType(10, 0)
	g.DT = NewDualType(1, 0)
	lo := vFloat("lo")
	hi := vFloat("hi")
	vAssume(lo <= hi)
	slo := vFloat("sumlo") // lower / upper bound of the running sums so far
	shi := vFloat("sumhi")
	for i := 0; i <= n; i++ {
		g.TSOIL[0][i] = vFloat("t0", i)
		vAssume(lo <= g.TSOIL[0][i] && g.TSOIL[0][i] <= hi)
	}
	// boundary values of the new time level were set by the prefix
	g.TSOIL[1][0] = vFloat("surf")
	vAssume(lo <= g.TSOIL[1][0] && g.TSOIL[1][0] <= hi)
	g.TSOIL[1][n] = vFloat("bottom")
	vAssume(lo <= g.TSOIL[1][n] && g.TSOIL[1][n] <= hi)
	for i := 0; i < n; i++ {
		// HEATCOND = a*HEATCAP with the diffusion number a/2400 in [0,1/2] (proved by the prefix)
		g.HEATCAP[i] = vFloat("cap", i)
		vAssume(g.HEATCAP[i] > 0)
		a := vFloat("a", i)
		vAssume(0 <= a && a <= 1200)
		g.HEATCOND[i] = a * g.HEATCAP[i]
		g.TDSUM[i] = vFloat("tdsum", i)
		vAssume(slo <= g.TDSUM[i] && g.TDSUM[i] <= shi)
	}
	ctl := zzR_SoiltempBody(g)
	vCover("C19.body.reach")
	vAssert("C19.body.falls_through", ctl == 0)
	eps := 1e-9
	for i := 0; i <= n; i++ {
		vObserve("t", g.TSOIL[0][i])
		vAssert("C19.body.envelope_preserved", lo-eps <= g.TSOIL[0][i] && g.TSOIL[0][i] <= hi+eps)
	}
	for i := 0; i+1 <= n-1; i++ {
		vAssert("C19.body.sum_envelope", slo+lo-eps <= g.TDSUM[i] && g.TDSUM[i] <= shi+hi+eps)
	}
	vAssert("C19.body.surface_mirror", g.TD[0] == g.TSOIL[1][0])
}

// suffix: daily means
func zzC19Post(n int) {
	g := new(GlobalVarsMain)
	g.N = n
	lo := vFloat("lo")
	hi := vFloat("hi")
	vAssume(lo <= hi)
	for i := 0; i <= n; i++ {
		g.TSOIL[0][i] = vFloat("t0", i)
		vAssume(lo <= g.TSOIL[0][i] && g.TSOIL[0][i] <= hi)
		g.TDSUM[i] = vFloat("tdsum", i)
		vAssume(24*lo <= g.TDSUM[i] && g.TDSUM[i] <= 24*hi)
	}
	g.TD[0] = vFloat("td0")
	vAssume(lo <= g.TD[0] && g.TD[0] <= hi)
	zzR_SoiltempPost(g)
	vCover("C19.post.reach")
	eps := 1e-9
	for i := 0; i <= n; i++ {
		vObserve("t", g.TSOIL[0][i])
		vAssert("C19.post.envelope", lo-eps <= g.TSOIL[0][i] && g.TSOIL[0][i] <= hi+eps)
		vAssert("C19.post.td_envelope", lo-eps <= g.TD[i] && g.TD[i] <= hi+eps)
	}
}
