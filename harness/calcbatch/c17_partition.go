package main

// C17: the batch calculator's ranges cover line 1..lines contiguously, and the
// line counter counts exactly the non-empty lines the simulator will execute.

import (
	"io"
	"os"
	"strconv"
	"strings"
)

func init() {
	vRegister("zzC17Partition", func(a []int) { zzC17Partition(a[0], a[1]) })
	vRegister("zzC17LineCounter", func(a []int) { zzC17LineCounter(a[0], a[1]) })
}

// native: a batch file with exactly `lines` non-empty lines; symbolic: readProj is stubbed
func zzBatchFile(lines int) string {
	if vSymbolic() {
		return "batch.txt"
	}
	f, err := os.CreateTemp("", "verif-batch-")
	if err != nil {
		panic(err)
	}
	f.WriteString(strings.Repeat("x\n", lines))
	f.Close()
	return f.Name()
}

func zzRunCalc(mode string, k int, path string) string {
	os.Args = []string{"calcHermesBatch", mode, strconv.Itoa(k), "-batch", path}
	vCaptureStart()
	main()
	return vCaptureEnd()
}

// k nodes; small == 0: all line counts >= k at once (symbolic);
// small > 0: the concrete line count `small` (< k), enumerated by the driver.
func zzC17Partition(k, small int) {
	lines := vInt("lines") // the same symbol the stubbed readProj returns
	if small == 0 {
		vAssume(lines >= k && lines <= 1<<31)
	} else {
		vAssume(lines == small)
	}
	path := zzBatchFile(lines)
	sizeOut := zzRunCalc("-size", k, path)
	listOut := zzRunCalc("-list", k, path)
	if !vSymbolic() {
		os.Remove(path)
	}
	vCover("C17.reach")
	sizes, _ := vTokens(sizeOut)
	vAssert("C17.size_is_one_number", len(sizes) == 1)
	if len(sizes) != 1 {
		return
	}
	size := sizes[0]
	expect := k
	if lines < k {
		expect = lines
	}
	vAssert("C17.size_value", size == expect)
	ints, texts := vTokens(listOut)
	// number of printed ranges equals the reported job-array size
	vAssert("C17.range_count_equals_size", len(ints) == 2*size)
	if len(ints) != 2*size {
		return
	}
	prevEnd := 0
	for r := 0; r < size; r++ {
		a, b := ints[2*r], ints[2*r+1]
		vAssert("C17.range_wellformed", texts[2*r+1] == "-" && a <= b)
		vAssert("C17.ranges_contiguous", a == prevEnd+1)
		prevEnd = b
	}
	vAssert("C17.last_range_ends_at_last_line", prevEnd == lines)
}

// ---- line counter vs the simulator's notion of an executed line

type zzChunkReader struct {
	data   []byte
	cut    int // first Read delivers data[:cut], second the rest
	calls  int
	total  int
}

func (r *zzChunkReader) Read(p []byte) (int, error) {
	r.calls++
	switch r.calls {
	case 1:
		n := copy(p, r.data[:r.cut])
		if r.cut == r.total {
			return n, io.EOF
		}
		return n, nil
	case 2:
		n := copy(p, r.data[r.cut:r.total])
		return n, io.EOF
	}
	return 0, io.EOF
}

// reference: what bufio.ScanLines + "len(line) > 0" (hermes2go's batch reader) executes:
// split at \n, drop one trailing \r, count non-empty lines; a final unterminated line counts.
func zzRefLines(b []byte, n int) int {
	count := 0
	start := 0
	for i := 0; i < n; i++ {
		if b[i] == '\n' {
			end := i
			if end > start && b[end-1] == '\r' {
				end--
			}
			if end > start {
				count++
			}
			start = i + 1
		}
	}
	if start < n {
		end := n
		if b[end-1] == '\r' {
			end--
		}
		if end > start {
			count++
		}
	}
	return count
}

// length n (concrete), cut position cut (concrete, 0 < cut <= n): bytes symbolic
func zzC17LineCounter(n, cut int) {
	data := make([]byte, n)
	for i := 0; i < n; i++ {
		data[i] = vByte("b", i)
	}
	// batch files with LF or CRLF line endings: a CR is always followed by LF
	for i := 0; i < n; i++ {
		if i+1 < n {
			vAssume(data[i] != '\r' || data[i+1] == '\n')
		} else {
			vAssume(data[i] != '\r')
		}
	}
	r := &zzChunkReader{data: data, cut: cut, total: n}
	got, err := lineCounter(r)
	vCover("C17.lc.reach")
	vObserveInt("count", int(got))
	vAssert("C17.lc.no_error", err == nil)
	if vKnown("C17-linecounter-cr-index") {
		return
	}
	ref := zzRefLines(data, n)
	vAssert("C17.lc.never_undercounts", int(got) >= ref)
	vAssert("C17.lc.counts_executed_lines", int(got) == ref)
}
