package hermes

// C16 / C05 / C07: the harvest branch of Nitro (region zzR_HarvestBlock, lifted verbatim; the residue routine,
// which reads the crop residue table, is replaced by arbitrary non-negative amounts; the management event writer
// is empty): on the harvest day of the current rotation entry
//   - the crop record carries the crop code of that rotation entry and the year of the harvest date,
//   - the rotation advances by exactly one entry, a record is reported finished iff the entry is not the initial one,
//   - the residues enter the organic pools exactly (surface parts into the top layer, root parts by root share),
//     the crop's N content loses them, the mineral part counts as dissolved fertiliser,
//   - the crop state of an annual crop is cleared (no organ mass, leaf area, biomass left; development not started).
// kind 0: annual crop, fixed dates; 1: permanent crop that is cut (keeps its stubble).

func init() {
	vRegister("zzC16Harvest", func(a []int) { zzC16Harvest(a[0], a[1]) })
}

func zzC16Harvest(kind, akf int) {
	g := new(GlobalVarsMain)
	ln := new(NitroBBBSharedVars)
	g.N = 20
	g.DZ = NewDualType(10, 0)
	g.DT = NewDualType(1, 0)
	g.DATEFORMAT = DateDElong
	g.Datum = DateConverter(50, DateDElong)
	g.Kalender = KalenderConverter(DateDElong, ".")
	g.managementConfig = &ManagementConfig{}
	g.AKF = NewDualType(akf, 1)
	g.NTIL = NewDualType(0, 1)
	g.TAG = NewDualType(226, 1)
	_, zeit := g.Datum("15.08.2003")
	g.ERNTE[akf] = zeit
	g.SAAT[akf] = zeit - 300
	g.SAAT2[akf+1] = zeit + 40
	crops := []CropType{WW, ZR, SM, GR}
	g.FRUCHT[akf] = crops[(akf+kind)%3]
	g.FRUCHT[akf+1] = crops[(akf+kind+1)%3]
	if kind == 1 {
		g.FRUCHT[akf] = GR
		g.FRUCHT[akf+1] = GR
		g.DAUERKULT = true
		g.JN[akf] = 0
	}
	g.WURZ = 3
	shares := 0.0
	for i := 0; i < 3; i++ {
		g.WUANT[i] = vFloat("wuant", i)
		vAssume(g.WUANT[i] >= 0 && g.WUANT[i] <= 1)
		shares += g.WUANT[i]
		g.NFOS[i], g.NAOS[i], g.C1[i] = vFloat("nfos", i), vFloat("naos", i), vFloat("c1", i)
		vAssume(g.NFOS[i] >= 0 && g.NAOS[i] >= 0 && g.C1[i] >= 0)
	}
	g.NAKT = 0.5
	g.PESUM, g.DSUMM = vFloat("pesum"), vFloat("dsumm")
	g.OBMAS, g.YIFAK, g.GEHOB, g.WUGEH = vFloat("obmas"), vFloat("yifak"), vFloat("gehob"), vFloat("wugeh")
	vAssume(g.PESUM >= 0 && g.DSUMM >= 0 && g.OBMAS >= 0 && g.YIFAK > 0 && g.YIFAK <= 0.9 && g.GEHOB >= 0 && g.GEHOB <= 0.1 && g.WUGEH >= 0 && g.WUGEH <= 0.1)
	g.YORGAN = 0
	for i := 0; i < 5; i++ {
		g.WORG[i] = vFloat("worg", i)
		vAssume(g.WORG[i] >= 0)
	}
	g.LAI, g.WUMAS, g.ASPOO = vFloat("lai"), g.WORG[0], vFloat("aspoo")
	g.INTWICK = NewDualType(-1, 1)
	g.INTWICK.SetByIndex(4)
	g.REDUKSUM, g.TRRELSUM = vFloat("reduksum"), vFloat("trrelsum")
	nfos0, naos0 := [3]float64{g.NFOS[0], g.NFOS[1], g.NFOS[2]}, [3]float64{g.NAOS[0], g.NAOS[1], g.NAOS[2]}
	pesum0, dsumm0 := g.PESUM, g.DSUMM
	var hp HFilePath
	var out CropOutputVars
	finishedCycle := false
	var runErr error
	fin, err, ctl := zzR_HarvestBlock(1, zeit, g, ln, &hp, &out, &finishedCycle, &runErr)
	vCover("C16.harvestblock.reach")
	vAssert("C16.harvestblock.falls_through", ctl == 0 && err == nil && !fin)
	vAssert("C16.harvestblock.rotation_advances_by_one_entry", g.AKF.Index == akf+1 && g.AKF.Num == float64(akf+2))
	vAssert("C05.harvestblock.record_finished_iff_not_the_initial_entry", finishedCycle == (akf > 0))
	if akf > 0 {
		year, _, _ := KalenderDate(zeit)
		vAssert("C16.harvestblock.record_carries_crop_code_of_the_rotation_entry", out.Crop == g.CropTypeToString(g.FRUCHT[akf], true))
		vAssert("C16.harvestblock.record_carries_harvest_year", out.HarvestYear == year && year == 2003 && out.HarvestDOY == 227)
		// residues (amounts returned by the residue routine: NDI, NSA, NLA, NUSA, NULA, NRESID = resid_1_0 .. resid_1_5)
		ndi, nsa, nla, nusa, nula := vFloat("resid", 1, 0), vFloat("resid", 1, 1), vFloat("resid", 1, 2), vFloat("resid", 1, 3), vFloat("resid", 1, 4)
		eps := 1e-9
		for i := 0; i < 3; i++ {
			wantF, wantA := nfos0[i]+nusa*g.WUANT[i], naos0[i]+nula*g.WUANT[i]
			if i == 0 {
				wantF += nsa
				wantA += nla
			}
			vAssert("C07.harvestblock.residues_enter_the_organic_pools_exactly", vNear(g.NFOS[i], wantF, eps) && vNear(g.NAOS[i], wantA, eps))
		}
		vAssert("C07.harvestblock.mineral_residue_n_counts_as_dissolved_fertiliser", vNear(g.DSUMM, dsumm0+ndi, eps))
		vAssert("C07.harvestblock.crop_n_uptake_reported_before_residues_leave", vNear(ln.NUPTAKE, pesum0, eps))
	}
	if kind == 0 {
		cleared := g.PESUM == 0 && g.LAI == 0 && g.OBMAS == 0 && g.WUMAS == 0 && g.WURZ == 0 && g.ASPOO == 0 && g.INTWICK.Index == -1
		for i := 0; i < 5; i++ {
			cleared = cleared && g.WORG[i] == 0
		}
		vAssert("C09.harvestblock.crop_state_cleared_after_an_annual_crop", cleared)
	} else {
		vAssert("C09.harvestblock.cut_permanent_crop_keeps_non_negative_stubble", g.WORG[1] >= 720 && g.WORG[2] >= 100 && g.WORG[3] == 0 && g.WORG[4] == 0 && g.OBMAS == g.WORG[1]+g.WORG[2] && g.PESUM >= 0)
	}
	vObserve("pesum", g.PESUM)
	vObserve("nfos0", g.NFOS[0])
}
