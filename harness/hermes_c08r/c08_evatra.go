package hermes

// C08: potential ET caps and the root water uptake distribution of Evatra
// (regions lifted verbatim from Evatra).

func init() {
	vRegister("zzC08PotET", func(a []int) { zzC08PotET(a[0]) })
	vRegister("zzC08PotETAt", func(a []int) { zzC08PotETAt(a[0], a[1]) })
	vRegister("zzC08Uptake", func(a []int) { zzC08Uptake(a[0], a[1]) })
	vRegister("zzC08Factors", func(a []int) { zzC08Factors(a[0], a[1]) })
}

// crop branch of the potential ET computation for the methods without transcendental functions
func zzC08PotET(method int) { zzC08PotETAt(method, 0) }

// methods 3 (Penman-Monteith) and 4 (Priestley-Taylor) need the astronomy of the day: site and day are concrete
// per instance - 52 N / 69.7 N x summer / winter solstice, the last being a day without sunrise - while the
// weather of the day is symbolic
func zzC08PotETAt(method, astro int) {
	g := new(GlobalVarsMain)
	l := new(WaterSharedVars)
	g.TAG = NewDualType(100, 1)
	if method == 3 || method == 4 {
		g.LAT = []float64{52, 52, 69.7, 69.7}[astro]
		g.TAG = NewDualType([]int{171, 354, 171, 354}[astro], 1)
		d := g.TAG.Index
		g.TMIN[d], g.TMAX[d], g.SUND[d], g.WIND[d], g.RH[d] = vFloat("tmin"), vFloat("tmax"), vFloat("sund"), vFloat("wind"), vFloat("rh")
		g.ALTI, g.WINDHI = vFloat("alti"), vFloat("windhi")
		g.CTRANS = vBool("ctrans")
		g.RSTOM = 100
		vAssume(g.TMIN[d] >= -60 && g.TMIN[d] <= g.TMAX[d] && g.TMAX[d] <= 60 && g.SUND[d] >= 0 && g.SUND[d] <= 24)
		vAssume(g.WIND[d] >= 0 && g.WIND[d] <= 40 && g.RH[d] >= 0 && g.RH[d] <= 100 && g.ALTI >= -400 && g.ALTI <= 5000 && g.WINDHI >= 0.5 && g.WINDHI <= 100)
		g.VERD[d], g.RAD[d], g.TEMP[d], g.ETNULL[d] = vFloat("verd"), vFloat("rad"), vFloat("temp"), vFloat("etnull")
		vAssume(g.TMIN[d] <= g.TEMP[d] && g.TEMP[d] <= g.TMAX[d])
		vAssume(g.RAD[d] >= 0)
		if astro == 3 {
			vAssume(g.RAD[d] == 0) // no global radiation is measured on a day without sunrise
		}
		g.VERD[100], g.RAD[100], g.TEMP[100], g.ETNULL[100] = g.VERD[d], g.RAD[d], g.TEMP[d], g.ETNULL[d]
	}
	dd := g.TAG.Index
	g.ETMETH = method
	g.VERD[dd] = vFloat("verd")
	g.RAD[dd] = vFloat("rad")
	g.TEMP[dd] = vFloat("temp")
	g.ETNULL[dd] = vFloat("etnull")
	g.KCOA = vFloat("kcoa")
	g.FKC = vFloat("fkc")
	g.LAI = vFloat("lai")
	FKM := 4
	g.FKF[3] = vFloat("fkf")
	// WEATHER domain
	if method == 3 || method == 4 {
		vAssume(g.VERD[dd] >= 0 && g.VERD[dd] <= 60 && g.RAD[dd] >= 0 && g.RAD[dd] <= 25)
	} else {
		vAssume(g.VERD[dd] >= 0 && g.VERD[dd] <= 60 && g.RAD[dd] > 0 && g.RAD[dd] <= 25)
	}
	vAssume(g.TEMP[dd] >= -60 && g.TEMP[dd] <= 60 && g.ETNULL[dd] >= 0 && g.ETNULL[dd] <= 20)
	vAssume(g.KCOA >= 0.5 && g.KCOA <= 1 && g.FKC >= 0 && g.FKC <= 2 && g.FKF[3] >= 0 && g.FKF[3] <= 1 && g.LAI >= 0 && g.LAI <= 12)
	var VERDU [366]float64
	var RADn, RADRatio, TRAMAX, FK, EVMAX, ETCP float64
	zzR_PotETCrop(l, g, &VERDU, &RADn, &RADRatio, FKM, &TRAMAX, &FK, &EVMAX, &ETCP)
	vCover("C08.pot.reach")
	vObserve("etcp", ETCP)
	vObserve("et0", g.ET0)
	vAssert("C08.pot.potential_et_capped", ETCP <= 0.65)
	if !vKnown("C08-negative-potential-et") {
		vAssert("C08.pot.potential_et_nonneg", ETCP >= 0)
		if method != 3 && method != 4 {
			// the split depends on the potential ET only through its range [0, 0.65], which is asserted above for
			// every method; it is decided on the instances whose formula the solvers can carry (methods 1, 2, 5)
			vAssert("C08.pot.split_nonneg", EVMAX >= 0 && TRAMAX >= 0)
		}
		vAssert("C08.pot.reference_et_nonneg", g.ET0 >= 0)
	}
	vAssert("C08.pot.split_sums_to_potential", vNear(EVMAX+TRAMAX, ETCP, 1e-9))
}

// root activity factors (first loop of the uptake block): piecewise-linear functions of NFK
func zzC08Factors(n, wurz int) {
	g := new(GlobalVarsMain)
	l := new(WaterSharedVars)
	g.N = n
	g.WURZ = wurz
	g.GRW = vFloat("grw")
	vAssume(g.GRW >= 1 && g.GRW <= 30)
	for i := 0; i < n; i++ {
		l.NFK[i] = vFloat("nfk", i)
		vAssume(l.NFK[i] >= 0)
		g.WUDICH[i] = vFloat("wudich", i)
		vAssume(g.WUDICH[i] >= 0)
	}
	var WUEFF, TRRED [21]float64
	var WEFF, WEFFREST float64
	zzR_UptakeFactors(l, g, &WUEFF, &TRRED, &WEFF, &WEFFREST)
	vCover("C08.fac.reach")
	sum := 0.0
	for i := 0; i < wurz; i++ {
		vObserve("wueff", WUEFF[i])
		vAssert("C08.fac.factors_in_unit_interval", WUEFF[i] >= 0 && WUEFF[i] <= 1+1e-9 && TRRED[i] >= 0 && TRRED[i] <= 1+1e-9)
		if float64(i+1) > g.GRW {
			vAssert("C08.fac.no_activity_below_groundwater", WUEFF[i] == 0)
		}
		sum += WUEFF[i] * g.WUDICH[i]
	}
	vAssert("C08.fac.weight_sum", vNear(WEFF, sum, 1e-9) && WEFFREST == WEFF)
}

// uptake distribution and redistribution from arbitrary activity factors in [0,1]
func zzC08Uptake(n, wurz int) {
	g := new(GlobalVarsMain)
	l := new(WaterSharedVars)
	g.N = n
	g.DZ = NewDualType(10, 0)
	g.DT = NewDualType(1, 0)
	g.INTWICK = NewDualType(2, 1)
	g.WURZ = wurz
	g.GRW = vFloat("grw")
	vAssume(g.GRW >= 1 && g.GRW <= 30)
	TRAMAX := vFloat("tramax")
	ETCP := vFloat("etcp")
	g.ETA = vFloat("eta")
	vAssume(TRAMAX >= 0 && g.ETA >= 0 && g.ETA+TRAMAX <= ETCP && ETCP <= 0.65)
	g.LUKRIT[2] = vFloat("lukrit")
	vAssume(g.LUKRIT[2] > 0 && g.LUKRIT[2] < 0.2)
	g.LUMDAY = vInt("lumday")
	vAssume(g.LUMDAY >= 0 && g.LUMDAY <= 4)
	var WUEFF, TRRED [21]float64
	WEFF := 0.0
	for i := 0; i < 3 || i < n; i++ {
		g.WMIN[i] = vFloat("wmin", i)
		g.PORGES[i] = vFloat("porges", i)
		vAssume(0 < g.WMIN[i] && g.WMIN[i] < g.PORGES[i] && g.PORGES[i] < 1)
		g.WG[0][i] = vFloat("wg", i)
		vAssume(g.WMIN[i]/3 <= g.WG[0][i] && g.WG[0][i] <= g.PORGES[i])
		g.WUDICH[i] = vFloat("wudich", i)
		vAssume(g.WUDICH[i] >= 0)
		g.TP[i] = vFloat("oldtp", i)
		if i < wurz {
			// post-conditions of the factor loop (zzC08Factors)
			WUEFF[i] = vFloat("wueff", i)
			TRRED[i] = vFloat("trred", i)
			vAssume(WUEFF[i] >= 0 && WUEFF[i] <= 1+1e-9 && TRRED[i] >= 0 && TRRED[i] <= 1+1e-9)
			if float64(i+1) > g.GRW {
				vAssume(WUEFF[i] == 0)
			}
			WEFF = WEFF + WUEFF[i]*g.WUDICH[i]
		}
	}
	WEFFREST := WEFF
	var TPAKT float64
	zzR_UptakeDistribute(l, g, &TPAKT, &WUEFF, &TRRED, TRAMAX, ETCP, WEFF, &WEFFREST)
	vCover("C08.upt.reach")
	eps := 1e-9
	sum := 0.0
	for i := 0; i < n; i++ {
		vObserve("tp", g.TP[i])
		sum += g.TP[i]
		vAssert("C08.upt.uptake_nonneg", g.TP[i] >= 0)
		if float64(i+1) > float64(g.WURZ) || float64(i+1) > g.GRW {
			vAssert("C08.upt.no_uptake_below_roots_or_groundwater", g.TP[i] == 0)
		}
	}
	vAssert("C08.upt.total_uptake_le_potential_transpiration", sum <= TRAMAX+eps)
	vAssert("C08.upt.actual_et_le_potential_et", g.ETA+sum <= ETCP+eps)
	vAssert("C08.upt.stress_ratios_in_unit_interval", g.ETREL >= 0 && g.ETREL <= 1+eps)
	if TRAMAX > 0 {
		vAssert("C08.upt.transpiration_ratio_in_unit_interval", g.TRREL >= 0 && g.TRREL <= 1+eps)
	}
}
