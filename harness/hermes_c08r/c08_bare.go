package hermes

// C08: potential ET on bare soil (region zzR_PotETBare: the else branch of the crop test in Evatra, lifted verbatim):
// never above 6 mm, never negative, all of it evaporation, no rooting depth; inputs as in zzC08PotETAt.

func init() {
	vRegister("zzC08PotETBare", func(a []int) { zzC08PotETBare(a[0], a[1]) })
}

func zzC08PotETBare(method, astro int) {
	g := new(GlobalVarsMain)
	l := new(WaterSharedVars)
	g.TAG = NewDualType(100, 1)
	if method == 3 || method == 4 {
		g.LAT = []float64{52, 52, 69.7, 69.7}[astro]
		g.TAG = NewDualType([]int{171, 354, 171, 354}[astro], 1)
		d := g.TAG.Index
		g.TMIN[d], g.TMAX[d], g.SUND[d], g.WIND[d], g.RH[d] = vFloat("tmin"), vFloat("tmax"), vFloat("sund"), vFloat("wind"), vFloat("rh")
		g.ALTI, g.WINDHI = vFloat("alti"), vFloat("windhi")
		g.CTRANS = vBool("ctrans")
		g.RSTOM = 100
		vAssume(g.TMIN[d] >= -60 && g.TMIN[d] <= g.TMAX[d] && g.TMAX[d] <= 60 && g.SUND[d] >= 0 && g.SUND[d] <= 24)
		vAssume(g.WIND[d] >= 0 && g.WIND[d] <= 40 && g.RH[d] >= 0 && g.RH[d] <= 100 && g.ALTI >= -400 && g.ALTI <= 5000 && g.WINDHI >= 0.5 && g.WINDHI <= 100)
		g.VERD[d], g.RAD[d], g.TEMP[d], g.ETNULL[d] = vFloat("verd"), vFloat("rad"), vFloat("temp"), vFloat("etnull")
		vAssume(g.TMIN[d] <= g.TEMP[d] && g.TEMP[d] <= g.TMAX[d])
		vAssume(g.RAD[d] >= 0)
		if astro == 3 {
			vAssume(g.RAD[d] == 0) // no global radiation is measured on a day without sunrise
		}
		g.VERD[100], g.RAD[100], g.TEMP[100], g.ETNULL[100] = g.VERD[d], g.RAD[d], g.TEMP[d], g.ETNULL[d]
	}
	dd := g.TAG.Index
	g.ETMETH = method
	g.VERD[dd] = vFloat("verd")
	g.RAD[dd] = vFloat("rad")
	g.TEMP[dd] = vFloat("temp")
	g.ETNULL[dd] = vFloat("etnull")
	g.KCOA = vFloat("kcoa")
	g.FKC = vFloat("fkc")
	g.LAI = vFloat("lai")
	FKM := 4
	g.FKU[3] = vFloat("fku")
	g.FKB = vFloat("fkb")
	// WEATHER domain
	if method == 3 || method == 4 {
		vAssume(g.VERD[dd] >= 0 && g.VERD[dd] <= 60 && g.RAD[dd] >= 0 && g.RAD[dd] <= 25)
	} else {
		vAssume(g.VERD[dd] >= 0 && g.VERD[dd] <= 60 && g.RAD[dd] > 0 && g.RAD[dd] <= 25)
	}
	vAssume(g.TEMP[dd] >= -60 && g.TEMP[dd] <= 60 && g.ETNULL[dd] >= 0 && g.ETNULL[dd] <= 20)
	vAssume(g.KCOA >= 0.5 && g.KCOA <= 1 && g.FKC >= 0 && g.FKC <= 2 && g.FKU[3] >= 0 && g.FKU[3] <= 1 && g.FKB >= 0 && g.FKB <= 2 && g.LAI >= 0 && g.LAI <= 12)
	var VERDU [366]float64
	var RADn, RADRatio, TRAMAX, FK, EVMAX float64
	g.WURZ = 3
	TRAMAX = 7
	zzR_PotETBare(l, g, &VERDU, &RADn, &RADRatio, FKM, &TRAMAX, &FK, &EVMAX)
	vCover("C08.bare.reach")
	pot := VERDU[g.TAG.Index]
	vObserve("etp", pot)
	vObserve("et0", g.ET0)
	vAssert("C08.bare.potential_et_capped_at_6_mm", pot <= 0.6)
	vAssert("C08.bare.potential_et_nonneg", pot >= 0)
	vAssert("C08.bare.all_of_it_is_evaporation_no_roots", EVMAX == pot && TRAMAX == 0 && g.WURZ == 0)
}
