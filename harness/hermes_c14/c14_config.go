package hermes

// C14: configuration precedence batch line > project configuration file > default.
//
// readConfig (real code) is executed with
//   - an argument map in which every scalar key of Config is present or absent
//     under its own symbolic boolean, with a symbolic value (numbers as numeric
//     tokens, switches/strings/enums from stated candidate texts), plus a key that
//     does not exist;
//   - a configuration file that exists or not, and that sets an arbitrary subset of
//     the keys to arbitrary values: yaml.Unmarshal is replaced by zzC14YamlModel,
//     which writes the fields through the (modelled) reflect API and calls the REAL
//     UnmarshalYAML methods of the enum-like types with the file text;
//   - reflect as modelled by the executor (engine/sym/reflect.go).
// Natively (replay, co-simulation) the real yaml library reads a file that the
// harness writes, and the real reflect package is used.

import (
	"errors"
	"os"
	"path/filepath"
	"reflect"
	"strconv"

	yaml "gopkg.in/yaml.v3"
)

func init() {
	vRegister("zzC14Precedence", func(a []int) { zzC14Precedence(a[0]) })
	vRegister("zzC14Tokens", func(a []int) { zzC14Tokens(a[0]) })
}

type zzC14Unm interface {
	UnmarshalYAML(func(interface{}) error) error
}

// texts and their documented meaning (comments of Config / README), independent of the code's tables
var zzC14SwitchTexts = []string{"1", "0", "on", "off", "yes", "no", "true", "false"}

func zzC14SwitchMeaning(k int) bool { return k%2 == 0 }

var zzC14GWTexts = []string{"polygonfile", "soilfile", "gwTimeSeries"}   // = values 0, 1, 2
var zzC14DFTexts = []string{"DateDEshort", "DateDElong", "DateENshort", "DateENlong"} // = values 0..3
// a valid end date (31 December 2010) in the four date formats
var zzC14EndDates = []string{"311210", "31122010", "123110", "12312010"}

// candidate texts for plain string keys (sv selects the family)
func zzC14StringCand(sv, i int, which string) string {
	switch sv {
	case 1:
		return ""
	case 2:
		return "csv"
	case 3:
		return "./" + which + strconv.Itoa(i)
	}
	return which + strconv.Itoa(i)
}

const zzC14Max = 64

type zzC14Plan struct {
	n                  int
	exists             bool
	aset, fset         [zzC14Max]bool
	argF, fileF, defF  [zzC14Max]float64
	argI, fileI, defI  [zzC14Max]int
	argB, fileB, defB  [zzC14Max]bool
	argS, fileS, defS  [zzC14Max]string
	fileText           [zzC14Max]string // text handed to UnmarshalYAML (enum-like types)
	kind               [zzC14Max]reflect.Kind
	custom             [zzC14Max]bool
	name               [zzC14Max]string
}

var zzC14P *zzC14Plan

func zzC14Index(p *zzC14Plan, name string) int {
	for i := 0; i < p.n; i++ {
		if p.name[i] == name {
			return i
		}
	}
	return -1
}

// zzC14MakePlan declares all inputs and the candidate values of every key.
func zzC14MakePlan(sv int) *zzC14Plan {
	p := new(zzC14Plan)
	def := NewDefaultConfig()
	dv := reflect.ValueOf(&def).Elem()
	p.n = dv.NumField()
	if p.n > zzC14Max {
		panic("Config has more fields than the harness supports")
	}
	p.exists = vBool("cfg_exists")
	for i := 0; i < p.n; i++ {
		f := dv.Field(i)
		p.name[i] = vFieldName(&def, i)
		p.kind[i] = f.Kind()
		_, p.custom[i] = f.Addr().Interface().(zzC14Unm)
		p.aset[i] = vBool("arg_set", i)
		p.fset[i] = p.exists && vBool("yaml_set", i)
		switch f.Kind() {
		case reflect.Float64:
			p.defF[i] = f.Float()
			p.argF[i] = vFloat("arg_f", i)
			p.fileF[i] = vFloat("yaml_f", i)
		case reflect.Int:
			p.defI[i] = int(f.Int())
			p.argI[i] = vInt("arg_i", i)
			p.fileI[i] = vInt("yaml_i", i)
			if p.custom[i] {
				// enum-like: the file holds one of the documented names, the batch line a valid number
				nvals := len(zzC14GWTexts)
				if p.name[i] == "Dateformat" {
					nvals = len(zzC14DFTexts)
				}
				vAssume(p.fileI[i] >= 0 && p.fileI[i] < nvals)
				vAssume(p.argI[i] >= 0 && p.argI[i] < nvals)
				if p.name[i] == "Dateformat" {
					p.fileText[i] = zzC14DFTexts[p.fileI[i]]
				} else {
					p.fileText[i] = zzC14GWTexts[p.fileI[i]]
				}
			}
			if p.name[i] == "DivideCentury" {
				vAssume(p.fileI[i] >= 0 && p.fileI[i] < 100 && p.argI[i] >= 0 && p.argI[i] < 100)
			}
		case reflect.Bool:
			p.defB[i] = f.Bool()
			ka, kf := vInt("arg_t", i), vInt("yaml_t", i)
			vAssume(ka >= 0 && ka < len(zzC14SwitchTexts) && kf >= 0 && kf < len(zzC14SwitchTexts))
			p.argS[i] = zzC14SwitchTexts[ka]
			p.argB[i] = zzC14SwitchMeaning(ka)
			p.fileText[i] = zzC14SwitchTexts[kf]
			p.fileB[i] = zzC14SwitchMeaning(kf)
		case reflect.String:
			p.defS[i] = f.String()
			p.argS[i] = zzC14StringCand(sv, i, "arg")
			p.fileS[i] = zzC14StringCand(sv, i, "file")
		default:
			panic("Config key of a kind the harness does not know: " + p.name[i])
		}
	}
	return p
}

// effective values by the property's rule
func (p *zzC14Plan) effF(i int) float64 {
	if p.aset[i] {
		return p.argF[i]
	}
	if p.fset[i] {
		return p.fileF[i]
	}
	return p.defF[i]
}
func (p *zzC14Plan) effI(i int) int {
	if p.aset[i] {
		return p.argI[i]
	}
	if p.fset[i] {
		return p.fileI[i]
	}
	return p.defI[i]
}
func (p *zzC14Plan) effB(i int) bool {
	if p.aset[i] {
		return p.argB[i]
	}
	if p.fset[i] {
		return p.fileB[i]
	}
	return p.defB[i]
}
func (p *zzC14Plan) effS(i int) string {
	if p.aset[i] {
		return p.argS[i]
	}
	if p.fset[i] {
		return p.fileS[i]
	}
	return p.defS[i]
}

// zzC14YamlModel stands for yaml.Unmarshal(in, out) under the executor: the file sets the
// planned subset of keys. Scalars are written through reflect; the enum-like types get
// their text through their own UnmarshalYAML.
func zzC14YamlModel(in []byte, out interface{}) error {
	p := zzC14P
	v := reflect.ValueOf(out).Elem()
	for i := 0; i < p.n; i++ {
		if !p.fset[i] {
			continue
		}
		f := v.Field(i)
		if u, ok := f.Addr().Interface().(zzC14Unm); ok {
			text := p.fileText[i]
			if err := u.UnmarshalYAML(func(o interface{}) error { *(o.(*string)) = text; return nil }); err != nil {
				return err
			}
			continue
		}
		switch f.Kind() {
		case reflect.Float64:
			f.SetFloat(p.fileF[i])
		case reflect.Int:
			f.SetInt(int64(p.fileI[i]))
		case reflect.String:
			f.SetString(p.fileS[i])
		}
	}
	return nil
}

func zzC14Stat(name string) (os.FileInfo, error) {
	if zzC14P.exists {
		return nil, nil
	}
	return nil, errors.New("stat: no such file")
}

func zzC14PoolGet(fp *FilePool, fd *FileDescriptior) []byte { return []byte{'#'} }

// native only: write the planned configuration file with the real yaml library
func zzC14WriteFile(p *zzC14Plan, path string) {
	full := NewDefaultConfig()
	fv := reflect.ValueOf(&full).Elem()
	ft := fv.Type()
	keep := map[string]bool{}
	for i := 0; i < p.n; i++ {
		if !p.fset[i] {
			continue
		}
		tag := ft.Field(i).Tag.Get("yaml")
		for k := 0; k < len(tag); k++ {
			if tag[k] == ',' {
				tag = tag[:k]
				break
			}
		}
		keep[tag] = true
		f := fv.Field(i)
		switch f.Kind() {
		case reflect.Float64:
			f.SetFloat(p.fileF[i])
		case reflect.Int:
			f.SetInt(int64(p.fileI[i]))
		case reflect.Bool:
			f.SetBool(p.fileB[i])
		case reflect.String:
			f.SetString(p.fileS[i])
		}
	}
	var node yaml.Node
	b, err := yaml.Marshal(full)
	if err != nil {
		panic(err)
	}
	if err := yaml.Unmarshal(b, &node); err != nil {
		panic(err)
	}
	m := node.Content[0]
	var kept []*yaml.Node
	for k := 0; k+1 < len(m.Content); k += 2 {
		key := m.Content[k].Value
		if !keep[key] {
			continue
		}
		val := m.Content[k+1]
		// switches: write the planned spelling
		for i := 0; i < p.n; i++ {
			tag := ft.Field(i).Tag.Get("yaml")
			if len(tag) >= len(key) && tag[:len(key)] == key && (len(tag) == len(key) || tag[len(key)] == ',') && p.kind[i] == reflect.Bool {
				val = &yaml.Node{Kind: yaml.ScalarNode, Tag: "!!str", Value: p.fileText[i], Style: yaml.DoubleQuotedStyle}
			}
		}
		kept = append(kept, m.Content[k], val)
	}
	// omitempty keys that were planned but dropped by Marshal (zero value): add them explicitly
	for i := 0; i < p.n; i++ {
		if !p.fset[i] {
			continue
		}
		tag := ft.Field(i).Tag.Get("yaml")
		for k := 0; k < len(tag); k++ {
			if tag[k] == ',' {
				tag = tag[:k]
				break
			}
		}
		found := false
		for k := 0; k < len(kept); k += 2 {
			if kept[k].Value == tag {
				found = true
			}
		}
		if !found {
			var val string
			tg := "!!int"
			switch p.kind[i] {
			case reflect.Int:
				val = strconv.Itoa(p.fileI[i])
			case reflect.Float64:
				val, tg = strconv.FormatFloat(p.fileF[i], 'g', -1, 64), "!!float"
			case reflect.String:
				val, tg = p.fileS[i], "!!str"
			}
			kept = append(kept, &yaml.Node{Kind: yaml.ScalarNode, Value: tag}, &yaml.Node{Kind: yaml.ScalarNode, Tag: tg, Value: val})
		}
	}
	m.Content = kept
	outb, err := yaml.Marshal(&node)
	if err != nil {
		panic(err)
	}
	if len(kept) == 0 {
		outb = []byte("# empty\n")
	}
	if err := os.WriteFile(path, outb, 0o644); err != nil {
		panic(err)
	}
}

func zzC14Precedence(sv int) {
	p := zzC14MakePlan(sv)
	zzC14P = p
	iDF, iDC, iEnd := zzC14Index(p, "Dateformat"), zzC14Index(p, "DivideCentury"), zzC14Index(p, "EndDate")
	// the end date is written in the date format that is in effect
	if iEnd >= 0 && iDF >= 0 {
		ed := zzC14EndDates[p.effI(iDF)]
		p.argS[iEnd], p.fileS[iEnd] = ed, ed
		if p.defS[iEnd] != "" {
			// the default end date is a long German date: only usable with that format
			vAssume(p.aset[iEnd] || p.fset[iEnd] || p.effI(iDF) == int(DateDElong))
		}
	}

	args := map[string]string{"project": "proj", "plotNr": "1"}
	if vBool("arg_unknown") {
		args["NoSuchConfigKey"] = "17"
	}
	if vBool("arg_lowercase") {
		args["leachingdepth"] = "3" // keys are case sensitive: this is not LeachingDepth
	}
	for i := 0; i < p.n; i++ {
		if !p.aset[i] {
			continue
		}
		switch p.kind[i] {
		case reflect.Float64:
			args[p.name[i]] = vFloatText("arg_f", i)
		case reflect.Int:
			args[p.name[i]] = vIntText("arg_i", i)
		default:
			args[p.name[i]] = p.argS[i]
		}
	}

	g := NewGlobalVarsMain()
	g.Session = NewHermesSession()
	root := "/zzroot"
	cfgPath := "/zzroot/project/proj/config.yml"
	if !vSymbolic() {
		dir, err := os.MkdirTemp("", "zzc14")
		if err != nil {
			panic(err)
		}
		defer os.RemoveAll(dir)
		root = dir
		cfgPath = filepath.Join(dir, "config.yml")
		if p.exists {
			zzC14WriteFile(p, cfgPath)
		}
	}
	hp := HFilePath{config: cfgPath, rootPath: root}
	cfg := readConfig(&g, args, &hp)

	cv := reflect.ValueOf(&cfg).Elem()
	for i := 0; i < p.n; i++ {
		f := cv.Field(i)
		same := false
		switch p.kind[i] {
		case reflect.Float64:
			same = f.Float() == p.effF(i)
		case reflect.Int:
			same = int(f.Int()) == p.effI(i)
		case reflect.Bool:
			same = f.Bool() == p.effB(i)
		case reflect.String:
			want := p.effS(i)
			// documented fall-backs for empty values
			switch p.name[i] {
			case "WeatherFolder":
				if want == "" {
					want = "Weather"
				}
			case "WeatherRootFolder":
				if want == "" {
					want = root
				} else if len(want) >= 2 && want[:2] == "./" {
					want = root + want[1:]
				}
			case "ResultFileExt":
				if want == "" {
					want = "RES"
					if k := zzC14Index(p, "ResultFileFormat"); k >= 0 && p.effI(k) == 1 {
						want = "csv"
					}
				}
			}
			same = f.String() == want
		}
		if p.aset[i] {
			vAssert("C14.batch_line_value_is_used", same)
		} else if p.fset[i] {
			vAssert("C14.file_value_used_when_no_argument", same)
		} else {
			vAssert("C14.default_when_neither_given", same)
		}
	}
	// what the run takes from the configuration
	idx := func(n string) int { return zzC14Index(p, n) }
	uses := g.OUTN == p.effI(idx("LeachingDepth")) && g.DEPOS == p.effF(idx("NDeposition")) && g.ANJAHR == p.effI(idx("StartYear")) &&
		g.ETMETH == p.effI(idx("ETpot")) && g.LAT == p.effF(idx("Latitude")) && g.ALTI == p.effF(idx("Altitude")) &&
		g.INIWAHL == p.effI(idx("InitSelection")) && g.PTF == p.effI(idx("PTF")) && g.GWPhase == p.effI(idx("GroundWaterPhase")) &&
		g.CO2METH == p.effI(idx("CO2method")) && g.CO2KONZ == p.effF(idx("CO2concentration")) && g.NAKT == p.effF(idx("OrganicMatterMineralProportion")) &&
		g.FKB == p.effF(idx("KcFactorBareSoil")) && g.TBASE == p.effF(idx("AnnualAverageTemperature")) &&
		g.DUNGSZEN == p.effF(idx("Fertilization"))/100 && g.PotMineralisationMethod == p.effI(idx("PotMineralisation"))
	vAssert("C14.run_state_takes_effective_numbers", uses)
	sw := g.PRECO == p.effB(idx("CorrectionPrecipitation")) && g.CTRANS == p.effB(idx("CO2StomataInfluence")) &&
		g.AUTOMAN == p.effB(idx("AutoSowingHarvest")) && g.AUTOFERT == p.effB(idx("AutoFertilization")) &&
		g.AUTOIRRI == p.effB(idx("AutoIrrigation")) && g.AUTOHAR == p.effB(idx("AutoHarvest"))
	vAssert("C14.run_state_takes_effective_switches", sw)
	vAssert("C14.run_state_takes_effective_enums", int(g.DATEFORMAT) == p.effI(iDF) && int(g.GROUNDWATERFROM) == p.effI(idx("GroundWaterFrom")))
	// 31.12.2010 is day 40177 since 31.12.1900; a two-digit year 10 below the century split is 2010, else 1910 (day 3652)
	want := 40177
	if df := p.effI(iDF); (df == int(DateDEshort) || df == int(DateENshort)) && !(10 < p.effI(iDC)) {
		want = 3652
	}
	vAssert("C14.end_date_read_in_effective_format", g.ENDE == want)
	vObserveInt("outn", g.OUTN)
	vObserveInt("ende", g.ENDE)
	vObserveInt("dateformat", int(g.DATEFORMAT))
	vObserveInt("gwfrom", int(g.GROUNDWATERFROM))
	vObserveInt("startyear", cfg.StartYear)
	vObserve("lat", g.LAT)
	vObserve("depos", g.DEPOS)
	vObserve("nonevalue", cfg.WeatherNoneValue)
	vObserveStr("ext", cfg.ResultFileExt)
	vObserveStr("wfolder", cfg.WeatherFolder)
	vObserveStr("soilfile", cfg.SoilFile)
	nsw := 0
	if g.AUTOIRRI {
		nsw++
	}
	if g.AUTOFERT {
		nsw += 2
	}
	if g.PRECO {
		nsw += 4
	}
	if g.CTRANS {
		nsw += 8
	}
	vObserveInt("switches", nsw)
	if p.aset[idx("LeachingDepth")] && p.fset[idx("LeachingDepth")] {
		vCover("C14.cover.arg_over_file")
	}
	if !p.aset[idx("Latitude")] && p.fset[idx("Latitude")] {
		vCover("C14.cover.file_only")
	}
	if !p.exists {
		vCover("C14.cover.no_file")
	}
	if vBool("arg_unknown") && p.aset[iDF] && p.effI(iDF) == int(DateENshort) {
		vCover("C14.cover.unknown_key_and_format_override")
	}
}

// zzC14Tokens: from the batch line's tokens to the configuration. The token loop of Run is
// lifted (region zzR_ArgMap); the value of LeachingDepth is two symbolic digits, Latitude a
// numeric token, the other tokens are concrete; perm selects the order in which they are written.
func zzC14Tokens(perm int) {
	d1, d2 := vByte("d", 0), vByte("d", 1)
	vAssume(d1 >= '0' && d1 <= '9' && d2 >= '0' && d2 <= '9')
	toks := []string{
		"project=proj",
		"LeachingDepth=" + string([]byte{d1, d2}),
		"plotNr=7",
		"Latitude=" + vFloatText("lat"),
		"AutoIrrigation=off",
		"novalue",
		"NoSuchKey=5",
		"SoilFile=my=soil", // two '=': not a key=value token
	}
	// rotate and optionally reverse: 2*len orders
	n := len(toks)
	args := make([]string, n)
	for i := 0; i < n; i++ {
		j := (i + perm/2) % n
		if perm%2 == 1 {
			j = n - 1 - j
		}
		args[i] = toks[j]
	}
	var argValues map[string]string
	_, ctl := zzR_ArgMap(args, &argValues)
	vAssert("C14.tokens.region_falls_through", ctl == 0)
	_, hasP := argValues["project"]
	_, hasN := argValues["plotNr"]
	vAssert("C14.tokens.key_value_tokens_recorded", hasP && hasN && argValues["plotNr"] == "7" && argValues["AutoIrrigation"] == "off")
	_, hasBare := argValues["novalue"]
	_, hasTwo := argValues["SoilFile"]
	vAssert("C14.tokens.other_tokens_ignored", !hasBare && !hasTwo && len(argValues) == 6)
	cfg := NewDefaultConfig()
	def := NewDefaultConfig()
	err := commandlineOverride(argValues, &cfg)
	vAssert("C14.tokens.no_error", err == nil)
	vAssert("C14.tokens.value_text_is_value_used", cfg.LeachingDepth == int(d1-'0')*10+int(d2-'0') && cfg.Latitude == vFloat("lat") && !bool(cfg.AutoIrrigation))
	vAssert("C14.tokens.unnamed_keys_keep_default", cfg.SoilFile == def.SoilFile && cfg.StartYear == def.StartYear && cfg.EndDate == def.EndDate && cfg.AutoFertilization == def.AutoFertilization)
	vObserveInt("depth", cfg.LeachingDepth)
	vObserve("lat", cfg.Latitude)
}
