package hermes

// native counting writer: one record = one line break written
type zzLineCounter struct{ tag string }

func (w *zzLineCounter) Write(s string) (int, error) {
	if s == "\r\n" {
		vCallLog["call:WriteLine:"+w.tag]++
	}
	return len(s), nil
}
func (w *zzLineCounter) WriteBytes(b []byte) (int, error) { return len(b), nil }
func (w *zzLineCounter) WriteRune(r rune) (int, error)    { return 1, nil }
func (w *zzLineCounter) WriteError(e error) (int, error)  { return 0, nil }
func (w *zzLineCounter) Close()                           {}

func zzOneColumnConfig(tag string) *OutputConfig {
	c := &OutputConfig{numDataColumns: 1, DataColumns: []OutputDataColum{{FormatStr: "%s", valueRef: "x"}}, formatType: csvOut, seperatorRune: ','}
	vTag(c, tag)
	return c
}
