package hermes

// C05: when the daily record is written (region lifted from the day loop of Run).

func init() {
	vRegister("zzC05Daily", func(a []int) { zzC05Daily() })
}

func zzC05Daily() {
	g := NewGlobalVarsMain()
	g.AKF = NewDualType(0, 1)
	OUTINT := vInt("outint")
	vAssume(OUTINT >= 0 && OUTINT <= 400)
	ZEIT := vInt("zeit")
	vAssume(ZEIT >= 1 && ZEIT <= 80000)
	g.ERNTE[0] = vInt("ernte")
	vAssume(g.ERNTE[0] >= 1 && g.ERNTE[0] <= 80000)
	g.Kalender = KalenderConverter(DateDElong, ".")
	daily := zzOneColumnConfig("daily")
	pf := zzOneColumnConfig("pf")
	var dRflowsum, ndrflow, nleach, percsum, nfixP [2]float64
	var vfile OutWriter = &zzLineCounter{tag: "daily"}
	var pfFile OutWriter = &zzLineCounter{tag: "pf"}
	_, ctl := zzR_DailyOut(&dRflowsum, &ndrflow, &nleach, &percsum, &nfixP, &g, OUTINT, vfile, daily, pfFile, pf, ZEIT)
	vCover("C05.daily.reach")
	vAssert("C05.daily.falls_through", ctl == 0)
	n := vCalls("call:WriteLine:daily")
	if OUTINT > 0 && ZEIT%OUTINT == 0 {
		vCover("C05.daily.cover_output_day")
		vAssert("C05.daily.one_record_on_interval_days", n == 1)
	} else {
		vAssert("C05.daily.no_record_otherwise", n == 0)
	}
}
