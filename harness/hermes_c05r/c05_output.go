package hermes

// C05: when output records are written (regions lifted from the day loop and set-up of Run).

func init() {
	vRegister("zzC05Daily", func(a []int) { zzC05Daily() })
	vRegister("zzC05Annual", func(a []int) { zzC05Annual() })
	vRegister("zzC05AnnualDay", func(a []int) { zzC05AnnualDay(a[0]) })
}

// native counting writer: one record = one line break written
type zzLineCounter struct{ tag string }

func (w *zzLineCounter) Write(s string) (int, error) {
	if s == "\r\n" {
		vCallLog["call:WriteLine:"+w.tag]++
	}
	return len(s), nil
}
func (w *zzLineCounter) WriteBytes(b []byte) (int, error) { return len(b), nil }
func (w *zzLineCounter) WriteRune(r rune) (int, error)    { return 1, nil }
func (w *zzLineCounter) WriteError(e error) (int, error)  { return 0, nil }
func (w *zzLineCounter) Close()                           {}

func zzOneColumnConfig(tag string) *OutputConfig {
	c := &OutputConfig{numDataColumns: 1, DataColumns: []OutputDataColum{{FormatStr: "%s", valueRef: "x"}}, formatType: csvOut, seperatorRune: ','}
	vTag(c, tag)
	return c
}

func zzC05Daily() {
	g := NewGlobalVarsMain()
	g.AKF = NewDualType(0, 1)
	OUTINT := vInt("outint")
	vAssume(OUTINT >= 0 && OUTINT <= 400)
	ZEIT := vInt("zeit")
	vAssume(ZEIT >= 1 && ZEIT <= 80000)
	g.ERNTE[0] = vInt("ernte")
	vAssume(g.ERNTE[0] >= 1 && g.ERNTE[0] <= 80000)
	g.Kalender = KalenderConverter(DateDElong, ".")
	daily := zzOneColumnConfig("daily")
	pf := zzOneColumnConfig("pf")
	var dRflowsum, ndrflow, nleach, percsum, nfixP [2]float64
	var vfile OutWriter = &zzLineCounter{tag: "daily"}
	var pfFile OutWriter = &zzLineCounter{tag: "pf"}
	_, ctl := zzR_DailyOut(&dRflowsum, &ndrflow, &nleach, &percsum, &nfixP, &g, OUTINT, vfile, daily, pfFile, pf, ZEIT)
	vCover("C05.daily.reach")
	vAssert("C05.daily.falls_through", ctl == 0)
	n := vCalls("call:WriteLine:daily")
	if OUTINT > 0 && ZEIT%OUTINT == 0 {
		vCover("C05.daily.cover_output_day")
		vAssert("C05.daily.one_record_on_interval_days", n == 1)
	} else {
		vAssert("C05.daily.no_record_otherwise", n == 0)
	}
}

func zzC05Annual() {
	g := NewGlobalVarsMain()
	g.TAG = NewDualType(0, 1)
	doy := vInt("doy")
	vAssume(doy >= 1 && doy <= 366)
	g.TAG.SetByIndex(doy - 1)
	OUTDAY := vInt("outday")
	vAssume(OUTDAY >= 1 && OUTDAY <= 365)
	g.JTAG = 365
	JZ := vInt("jz")
	vAssume(JZ >= 0 && JZ <= 90)
	g.NAKT = 0.5
	var SWCY, SWCY1 float64
	yearly := zzOneColumnConfig("yearly")
	var pnam OutWriter = &zzLineCounter{tag: "yearly"}
	g.OUTSUM = vFloat("outsum")
	_, ctl := zzR_AnnualOut(&SWCY, SWCY1, &g, OUTDAY, yearly, pnam, JZ)
	vCover("C05.annual.reach")
	vAssert("C05.annual.falls_through", ctl == 0)
	n := vCalls("call:WriteLine:yearly")
	if doy == OUTDAY {
		vCover("C05.annual.cover_output_day")
		vAssert("C05.annual.one_record_on_output_day", n == 1)
		vAssert("C05.annual.counters_reset_after_record", g.OUTSUM == 0 && g.SICKER == 0 && g.CAPSUM == 0)
	} else {
		vAssert("C05.annual.no_record_otherwise", n == 0)
	}
}

// the day of year on which the yearly record is written, against the configured date in a simulated year
func zzC05AnnualDay(format int) {
	g := NewGlobalVarsMain()
	var dri Config
	g.Datum = DateConverter(50, DateFormat(format))
	_, d0, d1 := zzDigits2("d")
	_, m0, m1 := zzDigits2("m")
	dd, mm := int(d0-'0')*10+int(d1-'0'), int(m0-'0')*10+int(m1-'0')
	ye := vInt("endyear")
	vAssume(ye >= 1901 && ye <= 2099)
	ys := vInt("simyear") // a simulated year
	vAssume(ys >= 1901 && ys <= ye)
	vAssume(mm >= 1 && mm <= 12 && dd >= 1 && dd <= zzDaysInMonth(mm, ye) && dd <= zzDaysInMonth(mm, ys))
	if format == int(DateDElong) {
		dri.AnnualOutputDate = string([]byte{d0, d1, m0, m1})
	} else {
		dri.AnnualOutputDate = string([]byte{m0, m1, d0, d1})
	}
	y0, y1, y2, y3 := byte('0'+ye/1000), byte('0'+(ye/100)%10), byte('0'+(ye/10)%10), byte('0'+ye%10)
	dri.EndDate = string([]byte{'3', '1', '1', '2', y0, y1, y2, y3})
	if format != int(DateDElong) {
		dri.EndDate = string([]byte{'1', '2', '3', '1', y0, y1, y2, y3})
	}
	g.ENDE = 1
	var OUTDAY int
	_, ctl := zzR_AnnualDay(&g, &dri, &OUTDAY)
	vCover("C05.annualday.reach")
	vAssert("C05.annualday.falls_through", ctl == 0)
	vObserveInt("outday", OUTDAY)
	want := zzDoy(dd, mm, ys)
	if vKnown("C05-annual-day-of-end-year") {
		// recorded finding: the day of year is taken in the END year and capped at 365
		vAssume(zzLeap(ys) == zzLeap(ye) || mm <= 2)
		vAssume(want <= 365)
	}
	vAssert("C05.annualday.record_on_configured_date_in_every_year", OUTDAY == want)
}
