package hermes

// C05: every record has as many fields as the output configuration has columns,
// for every kind of model variable a column can be bound to.

func init() {
	vRegister("zzC05Fields", func(a []int) { zzC05Fields(a[0], a[1]) })
}

// native/symbolic writer that counts separators and non-empty fields
type zzFieldCounter struct {
	seps   int
	fields int
	breaks int
}

func (w *zzFieldCounter) Write(s string) (int, error) {
	if s == "\r\n" {
		w.breaks++
	} else if len(s) > 0 {
		w.fields++
	}
	return len(s), nil
}
func (w *zzFieldCounter) WriteBytes(b []byte) (int, error) { return len(b), nil }
func (w *zzFieldCounter) WriteRune(r rune) (int, error) {
	if r == ',' {
		w.seps++
	}
	return 1, nil
}
func (w *zzFieldCounter) WriteError(e error) (int, error) { return 0, nil }
func (w *zzFieldCounter) Close()                          {}

// kind: the kind of variable bound to the second of three columns; format: 0 = fixed width, 1 = CSV
func zzC05Fields(kind, format int) {
	g := new(GlobalVarsMain)
	g.LAI = 3.5
	g.N = 7
	g.AKTUELL = "01.01.2000"
	g.C1[2] = 1.25
	var ref interface{}
	switch kind {
	case 0:
		ref = &g.LAI // scalar float
	case 1:
		ref = &g.N // scalar int
	case 2:
		ref = &g.AKTUELL // text
	case 3:
		ref = &g.C1[2] // array element
	case 4:
		ref = &g.INTWICK.Num // nested field
	case 5:
		ref = "n.a." // unbound variable name
	case 6:
		ref = &g.AUTOMAN // on/off scalar
	case 7:
		ref = &g.FRUCHT[1] // crop code (named integer type)
	}
	c := &OutputConfig{numDataColumns: 3, seperatorRune: ',', fillRune: ' ', DataColumns: []OutputDataColum{
		{FormatStr: "%v", Width: 8, valueRef: &g.LAI},
		{FormatStr: "%v", Width: 8, valueRef: ref},
		{FormatStr: "%v", Width: 8, valueRef: &g.N}}}
	if format == 1 {
		c.formatType = csvOut
	} else {
		c.formatType = hermesOut
	}
	w := &zzFieldCounter{}
	err := c.WriteLine(w)
	vCover("C05.fields.reach")
	if vKnown("C05-column-kinds") && kind >= 6 {
		return
	}
	vAssert("C05.fields.record_written_without_error", err == nil)
	vAssert("C05.fields.as_many_fields_as_columns", w.fields == 3 && w.breaks == 1)
	if format == 1 {
		vAssert("C05.fields.separators_between_all_fields", w.seps == 2)
	}
}
