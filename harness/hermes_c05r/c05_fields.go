package hermes

import "strings"

// C05: every record has as many fields as the output configuration has columns,
// for every kind of model variable a column can be bound to.

func init() {
	vRegister("zzC05Fields", func(a []int) { zzC05Fields(a[0], a[1]) })
	vRegister("zzC05EmptyFields", func(a []int) { zzC05EmptyFields(a[0]) })
}

// writer that collects what is written; the record is judged from its text, not from how many calls wrote it
type zzFieldCounter struct {
	text string
}

func (w *zzFieldCounter) Write(s string) (int, error)      { w.text += s; return len(s), nil }
func (w *zzFieldCounter) WriteBytes(b []byte) (int, error) { w.text += string(b); return len(b), nil }
func (w *zzFieldCounter) WriteRune(r rune) (int, error)    { w.text += string(r); return 1, nil }
func (w *zzFieldCounter) WriteError(e error) (int, error)  { return 0, nil }
func (w *zzFieldCounter) Close()                           {}

// zzRecordShape: number of line breaks, of separators and of non-blank fields of the one record in text.
// CSV: fields are the pieces between separators; fixed width: the blank-separated values.
func zzRecordShape(text string, csv bool) (breaks, seps, fields int) {
	breaks = strings.Count(text, "\r\n")
	line := strings.TrimSuffix(text, "\r\n")
	if csv {
		seps = strings.Count(line, ",")
		for _, f := range strings.Split(line, ",") {
			if strings.TrimSpace(f) != "" {
				fields++
			}
		}
		return
	}
	fields = len(strings.Fields(line)) // the harness' values hold no blanks
	return
}

// kind: the kind of variable bound to the second of three columns; format: 0 = fixed width, 1 = CSV
func zzC05Fields(kind, format int) {
	g := new(GlobalVarsMain)
	g.LAI = 3.5
	g.N = 7
	g.AKTUELL = "01.01.2000"
	g.C1[2] = 1.25
	var ref interface{}
	switch kind {
	case 0:
		ref = &g.LAI // scalar float
	case 1:
		ref = &g.N // scalar int
	case 2:
		ref = &g.AKTUELL // text
	case 3:
		ref = &g.C1[2] // array element
	case 4:
		ref = &g.INTWICK.Num // nested field
	case 5:
		ref = "n.a." // unbound variable name
	case 6:
		ref = &g.AUTOMAN // on/off scalar
	case 7:
		ref = &g.FRUCHT[1] // crop code (named integer type)
	}
	c := &OutputConfig{numDataColumns: 3, seperatorRune: ',', fillRune: ' ', DataColumns: []OutputDataColum{
		{FormatStr: "%v", Width: 8, valueRef: &g.LAI},
		{FormatStr: "%v", Width: 8, valueRef: ref},
		{FormatStr: "%v", Width: 8, valueRef: &g.N}}}
	if format == 1 {
		c.formatType = csvOut
	} else {
		c.formatType = hermesOut
	}
	w := &zzFieldCounter{}
	err := c.WriteLine(w)
	vCover("C05.fields.reach")
	if vKnown("C05-column-kinds") && kind >= 6 {
		return
	}
	vAssert("C05.fields.record_written_without_error", err == nil)
	breaks, seps, fields := zzRecordShape(w.text, format == 1)
	vAssert("C05.fields.as_many_fields_as_columns", fields == 3 && breaks == 1)
	if format == 1 {
		vAssert("C05.fields.separators_between_all_fields", seps == 2)
	}
}

// a CSV record keeps its number of fields when values are empty texts (e.g. the id column of a run without a
// polygon id): which = bit mask of the three columns that are bound to an empty text
func zzC05EmptyFields(which int) {
	g := new(GlobalVarsMain)
	g.LAI = 3.5
	g.N = 7
	empty := ""
	refs := []interface{}{&g.LAI, &g.N, &g.LAI}
	for k := 0; k < 3; k++ {
		if which&(1<<uint(k)) != 0 {
			refs[k] = &empty
		}
	}
	c := &OutputConfig{numDataColumns: 3, seperatorRune: ',', fillRune: ' ', formatType: csvOut, DataColumns: []OutputDataColum{
		{FormatStr: "%v", Width: 8, valueRef: refs[0]},
		{FormatStr: "%v", Width: 8, valueRef: refs[1]},
		{FormatStr: "%v", Width: 8, valueRef: refs[2]}}}
	w := &zzFieldCounter{}
	err := c.WriteLine(w)
	vCover("C05.emptyfields.reach")
	breaks, seps, _ := zzRecordShape(w.text, true)
	vAssert("C05.emptyfields.record_written_without_error", err == nil)
	vAssert("C05.emptyfields.as_many_fields_as_columns_also_when_values_are_empty", seps == 2 && breaks == 1)
}
