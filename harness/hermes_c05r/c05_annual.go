package hermes

// C05: when the yearly record is written (region lifted from the day loop of Run).

func init() {
	vRegister("zzC05Annual", func(a []int) { zzC05Annual() })
}

func zzC05Annual() {
	g := NewGlobalVarsMain()
	g.TAG = NewDualType(0, 1)
	doy := vInt("doy")
	vAssume(doy >= 1 && doy <= 366)
	g.TAG.SetByIndex(doy - 1)
	OUTDAY := vInt("outday")
	vAssume(OUTDAY >= 1 && OUTDAY <= 365)
	g.JTAG = 365
	JZ := vInt("jz")
	vAssume(JZ >= 0 && JZ <= 90)
	g.NAKT = 0.5
	var SWCY, SWCY1 float64
	yearly := zzOneColumnConfig("yearly")
	var pnam OutWriter = &zzLineCounter{tag: "yearly"}
	g.OUTSUM = vFloat("outsum")
	// the simulated day (any day from the simulation start on, the start day included)
	g.BEGINN = vInt("beginn")
	ZEIT := vInt("zeit")
	vAssume(g.BEGINN >= 1000 && ZEIT >= g.BEGINN && ZEIT <= 80000)
	_, ctl := zzR_AnnualOut(&SWCY, SWCY1, &g, OUTDAY, yearly, pnam, JZ, ZEIT)
	vCover("C05.annual.reach")
	vAssert("C05.annual.falls_through", ctl == 0)
	n := vCalls("call:WriteLine:yearly")
	if doy == OUTDAY {
		vCover("C05.annual.cover_output_day")
		vAssert("C05.annual.one_record_on_output_day", n == 1)
		vAssert("C05.annual.counters_reset_after_record", g.OUTSUM == 0 && g.SICKER == 0 && g.CAPSUM == 0)
	} else {
		vAssert("C05.annual.no_record_otherwise", n == 0)
	}
}
