package hermes

func init() {
	vRegister("zzC05AnnualDay", func(a []int) { zzC05AnnualDay(a[0]) })
}

// the day of year on which the yearly record is written, against the configured date in a simulated year
func zzC05AnnualDay(format int) {
	g := NewGlobalVarsMain()
	var dri Config
	g.Datum = DateConverter(50, DateFormat(format))
	_, d0, d1 := zzDigits2("d")
	_, m0, m1 := zzDigits2("m")
	dd, mm := int(d0-'0')*10+int(d1-'0'), int(m0-'0')*10+int(m1-'0')
	ye := vInt("endyear")
	vAssume(ye >= 1901 && ye <= 2099)
	ys := vInt("simyear") // a simulated year
	vAssume(ys >= 1901 && ys <= ye)
	vAssume(mm >= 1 && mm <= 12 && dd >= 1 && dd <= zzDaysInMonth(mm, ye) && dd <= zzDaysInMonth(mm, ys))
	if format == int(DateDElong) {
		dri.AnnualOutputDate = string([]byte{d0, d1, m0, m1})
	} else {
		dri.AnnualOutputDate = string([]byte{m0, m1, d0, d1})
	}
	y0, y1, y2, y3 := byte('0'+ye/1000), byte('0'+(ye/100)%10), byte('0'+(ye/10)%10), byte('0'+ye%10)
	dri.EndDate = string([]byte{'3', '1', '1', '2', y0, y1, y2, y3})
	if format != int(DateDElong) {
		dri.EndDate = string([]byte{'1', '2', '3', '1', y0, y1, y2, y3})
	}
	g.ENDE = 1
	var OUTDAY int
	_, ctl := zzR_AnnualDay(&g, &dri, &OUTDAY)
	vCover("C05.annualday.reach")
	vAssert("C05.annualday.falls_through", ctl == 0)
	vObserveInt("outday", OUTDAY)
	want := zzDoy(dd, mm, ys)
	if vKnown("C05-annual-day-of-end-year") {
		// recorded finding: the day of year is taken in the END year and capped at 365
		vAssume(zzLeap(ys) == zzLeap(ye) || mm <= 2)
		vAssume(want <= 365)
	}
	vAssert("C05.annualday.record_on_configured_date_in_every_year", OUTDAY == want)
}
