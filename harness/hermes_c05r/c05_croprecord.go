package hermes

// C05: one crop record per finished crop cycle, whatever the number of sub-steps of the day
// (sub-step loop lifted from Run; Water, PhytoOut and Nitro are stubbed, Nitro reports an
// arbitrary "finished" flag per call; WriteLine calls are counted).

func init() {
	vRegister("zzC05CropRecord", func(a []int) { zzC05CropRecord(a[0]) })
}

func zzC05CropRecord(k int) {
	g := NewGlobalVarsMain()
	g.AKF = NewDualType(0, 1)
	g.N = 2
	g.DT = NewDualType(1, 0)
	WDT := 1.0 / float64(k) // the region derives the number of sub-steps from the sub-step length
	ZEIT := vInt("zeit")
	vAssume(ZEIT >= 1 && ZEIT <= 80000)
	var SWCY, SWC1, SWCY1 float64
	var water WaterSharedVars
	var crop CropSharedVars
	var nitro NitroSharedVars
	var nitroB NitroBBBSharedVars
	var hp HFilePath
	var dri Config
	var cropOut CropOutputVars
	cfg := zzOneColumnConfig("crop")
	var cnam OutWriter = &zzLineCounter{tag: "crop"}
	err, ctl := zzR_SubstepLoop(&SWCY, &SWC1, &WDT, &SWCY1, &g, &crop, &nitro, &nitroB, &water, &hp, &dri, &cropOut, cfg, cnam, ZEIT)
	vCover("C05.croprecord.reach")
	vAssert("C05.croprecord.falls_through", ctl == 0 && err == nil)
	finished := 0
	for s := 1; s <= k; s++ {
		if vBool("nitro", s) {
			finished++
		}
	}
	// a crop cycle ends at most once a day (Nitro reports it on the harvest day's first sub-step); however the
	// record is organised, one finished cycle gives one record and no finished cycle gives none
	vAssume(finished <= 1)
	vAssert("C05.croprecord.one_record_per_finished_cycle", vCalls("call:WriteLine:crop") == finished)
}
