package hermes

// C18: a command-line crop parameter override gives the state that reading an edited
// parameter file gives (the assignment part of ReadCropParamYml is lifted; yaml.Unmarshal
// is replaced by "delivers an arbitrary parameter set").

func init() {
	vRegister("zzC18Override", func(a []int) { zzC18Override(a[0], a[1]) })
	vRegister("zzC18OtherFile", func(a []int) { zzC18OtherFile(a[0]) })
}

const zzNK, zzNS = 3, 2 // organs, stages (different, so that the two index ranges cannot be confused)

func zzCropParam() CropParam {
	p := CropParam{NRKOM: zzNK, NRENTW: zzNS, TempTyp: 1, NGEFKT: 1, YORGAN: 1}
	p.MAXAMAX, p.MINTMP, p.WUMAXPF, p.VELOC, p.YIFAK = vFloat("p_maxamax"), vFloat("p_mintmp"), vFloat("p_wumaxpf"), vFloat("p_veloc"), vFloat("p_yifak")
	p.INITCONCNBIOM, p.INITCONCNROOT, p.KcIni = vFloat("p_nbiom"), vFloat("p_nroot"), vFloat("p_kcini")
	p.AboveGroundOrgans = []int{1}
	p.CompartmentNames = []string{"leaf", "root"}
	p.CompartmentNames = []string{"leaf", "stem", "root"}
	p.WORG = []float64{vFloat("p_worg", 0), vFloat("p_worg", 1), vFloat("p_worg", 2)}
	p.MAIRT = []float64{vFloat("p_mairt", 0), vFloat("p_mairt", 1), vFloat("p_mairt", 2)}
	p.DAUERKULT = FeatureSwitch(vBool("p_permanent"))
	for s := 0; s < zzNS; s++ {
		st := CropDevelopmentStage{}
		st.TSUM, st.BAS, st.VSCHWELL, st.DAYL, st.DLBAS = vFloat("p_tsum", s), vFloat("p_bas", s), vFloat("p_vschwell", s), vFloat("p_dayl", s), vFloat("p_dlbas", s)
		st.DRYSWELL, st.LUKRIT, st.LAIFKT, st.WGMAX, st.Kc = vFloat("p_dryswell", s), vFloat("p_lukrit", s), vFloat("p_laifkt", s), vFloat("p_wgmax", s), vFloat("p_kc", s)
		st.PRO = []float64{vFloat("p_pro", s, 0), vFloat("p_pro", s, 1), vFloat("p_pro", s, 2)}
		st.DEAD = []float64{vFloat("p_dead", s, 0), vFloat("p_dead", s, 1), vFloat("p_dead", s, 2)}
		p.CropDevelopmentStages = append(p.CropDevelopmentStages, st)
	}
	return p
}

func zzApply(p *CropParam) (*GlobalVarsMain, *CropSharedVars) {
	g := new(GlobalVarsMain)
	l := new(CropSharedVars)
	// third crop of the rotation, preceded by an arbitrary crop: the reader keeps the previous
	// N concentrations only for a permanent crop following itself
	g.AKF = NewDualType(2, 1)
	g.FRUCHT[2] = CropType(vInt("crop_now"))
	g.FRUCHT[1] = CropType(vInt("crop_before"))
	g.GEHOB = vFloat("old_gehob")
	g.WUGEH = vFloat("old_wugeh")
	for k := 0; k < zzNK; k++ {
		g.WORG[k] = vFloat("old_worg", k)
	}
	g.INTWICK = NewDualType(0, 1)
	zzR_ApplyCropParam("PARAM.X", l, g, p)
	return g, l
}

// every field of the run state and of the crop module's state (also fields added later, e.g. quantities derived
// from the parameters when they are read) has to agree
func zzSameCrop(g1 *GlobalVarsMain, l1 *CropSharedVars, g2 *GlobalVarsMain, l2 *CropSharedVars) bool {
	return vSameState(l1, l2) && vSameState(g1, g2)
}

func zzSameCropListed(g1 *GlobalVarsMain, l1 *CropSharedVars, g2 *GlobalVarsMain, l2 *CropSharedVars) bool {
	same := g1.MAXAMAX == g2.MAXAMAX && g1.MINTMP == g2.MINTMP && g1.WUMAXPF == g2.WUMAXPF && g1.VELOC == g2.VELOC && g1.YIFAK == g2.YIFAK &&
		g1.GEHOB == g2.GEHOB && g1.WUGEH == g2.WUGEH && l1.tendsum == l2.tendsum && l1.kcini == l2.kcini
	for s := 0; s < zzNS; s++ {
		same = same && g1.TSUM[s] == g2.TSUM[s] && g1.BAS[s] == g2.BAS[s] && g1.VSCHWELL[s] == g2.VSCHWELL[s] && g1.DAYL[s] == g2.DAYL[s] &&
			g1.DLBAS[s] == g2.DLBAS[s] && g1.DRYSWELL[s] == g2.DRYSWELL[s] && g1.LUKRIT[s] == g2.LUKRIT[s] && g1.LAIFKT[s] == g2.LAIFKT[s] &&
			g1.WGMAX[s] == g2.WGMAX[s] && l1.kc[s] == l2.kc[s]
		for k := 0; k < zzNK; k++ {
			same = same && g1.PRO[s][k] == g2.PRO[s][k] && g1.DEAD[s][k] == g2.DEAD[s][k]
		}
	}
	return same
}

var zzBaseKeys = []string{"MAXAMAX", "MINTMP", "WUMAXPF", "VELOC", "YIFAK", "INITCONCNBIOM", "INITCONCNROOT"}
var zzStageKeys = []string{"TSUM", "BAS", "VSCHWELL", "DAYL", "DLBAS", "DRYSWELL", "LUKRIT", "LAIFKT", "WGMAX", "KC"}

// key: 0..6 base parameters, 10..19 stage parameters, 20 PRO, 21 DEAD; idx: stage (1-based) for 10.., organ for 20..
func zzC18Override(key, idx int) {
	v := vFloat("value")
	P := zzCropParam()
	ow := &CropOverwrite{CropFile: "PARAM.X", BaseFloatParameters: map[string]float64{}, DevelopmentStageParameters: map[string]map[int]float64{}, PartitioningParameters: map[string]map[PartPair]float64{}}
	P2 := zzCropParam() // same symbols: an identical copy to be edited
	name := ""
	switch {
	case key < 10:
		name = zzBaseKeys[key]
		ow.BaseFloatParameters[name] = v
		switch key {
		case 0:
			P2.MAXAMAX = v
		case 1:
			P2.MINTMP = v
		case 2:
			P2.WUMAXPF = v
		case 3:
			P2.VELOC = v
		case 4:
			P2.YIFAK = v
		case 5:
			P2.INITCONCNBIOM = v
		case 6:
			P2.INITCONCNROOT = v
		}
	case key < 20:
		name = zzStageKeys[key-10]
		ow.DevelopmentStageParameters[name] = map[int]float64{idx: v}
		st := &P2.CropDevelopmentStages[idx-1]
		switch key - 10 {
		case 0:
			st.TSUM = v
		case 1:
			st.BAS = v
		case 2:
			st.VSCHWELL = v
		case 3:
			st.DAYL = v
		case 4:
			st.DLBAS = v
		case 5:
			st.DRYSWELL = v
		case 6:
			st.LUKRIT = v
		case 7:
			st.LAIFKT = v
		case 8:
			st.WGMAX = v
		case 9:
			st.Kc = v
		}
	case key == 20:
		ow.PartitioningParameters["PRO"] = map[PartPair]float64{{Stage: 1, Part: idx}: v}
		P2.CropDevelopmentStages[0].PRO[idx-1] = v
	default:
		ow.PartitioningParameters["DEAD"] = map[PartPair]float64{{Stage: 1, Part: idx}: v}
		P2.CropDevelopmentStages[0].DEAD[idx-1] = v
	}
	gA, lA := zzApply(&P) // original file, then the override
	ow.OverwriteCropParameters("some/dir/PARAM.X", gA, lA)
	gB, lB := zzApply(&P2) // edited file
	gN, lN := zzApply(&P)  // original file, no override
	vCover("C18.reach")
	applied := zzSameCrop(gA, lA, gB, lB)
	rejected := zzSameCrop(gA, lA, gN, lN)
	if vKnown("C18-tendsum-stale") && key == 10 {
		// recorded finding: the summed temperature requirement is not recomputed after a TSUM override
		lA.tendsum = lB.tendsum
		applied = zzSameCrop(gA, lA, gB, lB)
	}
	vAssert("C18.override_equals_file_edit_or_is_rejected_as_a_whole", applied || rejected)
	// a value well inside the documented range (and stage/organ indexes that exist) must be applied
	valid := false
	switch {
	case key == 0:
		valid = v >= 1 && v <= 99
	case key == 1:
		valid = v >= -20 && v <= 40
	case key == 2:
		valid = v >= 1 && v <= 19
	case key == 3 || key == 4:
		valid = v >= 0.01 && v <= 0.9
	case key == 5 || key == 6:
		valid = v >= 1 && v <= 90
	case key == 10:
		valid = v >= 1 && v <= 9000
	case key == 11:
		valid = v >= -5 && v <= 35
	case key == 12 || key == 17 || key == 18:
		valid = v >= 1 && v <= 90
	case key == 13 || key == 14:
		valid = v >= -20 && v <= 20
	case key == 15 || key == 16 || key == 19:
		valid = v >= 0.1 && v <= 0.9
	default:
		valid = v >= 0.1 && v <= 0.9
	}
	if valid {
		vCover("C18.cover_valid_value")
		vAssert("C18.valid_override_is_applied", applied)
	}
	if applied && !rejected {
		vCover("C18.cover_override_applied")
	}
}

var zzOtherFiles = []string{"some/dir/PARAM.XY", "some/dir/PARAM.XY.yml", "some/dir/XPARAM.X", "some/dir/PARAM.", "PARAM.X/PARAM.Y", "some/dir/param.x"}

// an override addresses one crop parameter file: while any other crop of the rotation is read (also one whose file
// name merely starts or ends with the addressed name) the run is the one without overrides
func zzC18OtherFile(which int) {
	v := vFloat("value")
	vAssume(v >= 1 && v <= 90)
	P := zzCropParam()
	ow := &CropOverwrite{CropFile: "PARAM.X", BaseFloatParameters: map[string]float64{"MAXAMAX": v, "INITCONCNBIOM": v}, DevelopmentStageParameters: map[string]map[int]float64{"TSUM": {1: v}}, PartitioningParameters: map[string]map[PartPair]float64{}}
	gA, lA := zzApply(&P)
	ow.OverwriteCropParameters(zzOtherFiles[which], gA, lA)
	gN, lN := zzApply(&P)
	vCover("C18.otherfile.reach")
	vAssert("C18.override_leaves_other_crop_files_alone", zzSameCrop(gA, lA, gN, lN))
	// and it is applied to the addressed file wherever that lies
	gB, lB := zzApply(&P)
	ow.OverwriteCropParameters("another/place/PARAM.X", gB, lB)
	vAssert("C18.override_applied_to_addressed_file", gB.MAXAMAX == v)
}
